//go:build verif

package jsonrpc

import (
	"context"
	"net"
	"net/http"
)

// VerifSetDefaultDial (verification hook, injected by cmd/vinstr as an overlay file, never
// committed to the repository) points the library's own default HTTP client - the one every
// http:// client uses unless WithHTTPClient is given - at the harness's in-memory network,
// leaving every other setting of its transport (connection limits, timeouts) as the library
// configured it.
func VerifSetDefaultDial(dial func(ctx context.Context, network, addr string) (net.Conn, error)) {
	tr := _defaultHTTPClient.Transport.(*http.Transport)
	tr.CloseIdleConnections()
	tr.DialContext = dial
	tr.Proxy = nil
}

// VerifCloseDefaultIdle drops the default client's idle connections (end of an execution).
func VerifCloseDefaultIdle() {
	_defaultHTTPClient.Transport.(*http.Transport).CloseIdleConnections()
}
