//go:build verif

// Package verifshim is injected into the go-jsonrpc module at build time (go build -overlay)
// by /verif/cmd/vinstr. The rewritten library sources call into it before every
// synchronisation operation. With no scheduler attached (Sched == nil) every hook is a
// pass-through, so the instrumented library behaves exactly like the original one.
package verifshim

import (
	"fmt"
	"reflect"
	"runtime"
	"runtime/debug"
	"sort"
	gosync "sync"
	"unsafe"
)

// OpKind classifies a gate.
type OpKind int

const (
	OpLock OpKind = iota
	OpSend
	OpRecv
	OpClose
	OpSelect
	OpYield // always enabled, pure schedule point
	OpEnv   // harness gate, enabledness decided by the scheduler
	OpRLock
)

func (k OpKind) String() string {
	switch k {
	case OpLock:
		return "lock"
	case OpSend:
		return "send"
	case OpRecv:
		return "recv"
	case OpClose:
		return "close"
	case OpSelect:
		return "select"
	case OpYield:
		return "yield"
	case OpEnv:
		return "env"
	case OpRLock:
		return "rlock"
	}
	return "?"
}

// Case is one communication clause of a select.
type Case struct {
	Send bool
	Ch   unsafe.Pointer // runtime hchan, nil for a nil channel
}

// Op describes the operation a goroutine is about to perform.
type Op struct {
	Kind       OpKind
	Obj        unsafe.Pointer // mutex or hchan
	Cases      []Case
	HasDefault bool
	Site       string // static site id assigned by vinstr ("file:line")
	Name       string // for OpEnv / OpYield
}

// Scheduler is implemented by the explorer in the harness module.
type Scheduler interface {
	// Gate parks the calling goroutine until the scheduler releases it. For OpSelect the
	// result is the index of the case that must be taken, -1 for "block on all cases" and
	// -2 for the default clause.
	Gate(op *Op) int
	Spawn() uint64 // called by the parent before a go statement; returns a token
	Enter(tok uint64)
	Exit()
	Locked(m unsafe.Pointer)
	Unlocked(m unsafe.Pointer)
	Rand() float64
	Panicked(r interface{}, stack []byte)
	Stuck() // blocks for ever, durably
}

// Sched is the attached scheduler, nil in pass-through mode. It is only ever changed while
// no instrumented goroutine is running.
var Sched Scheduler

// Goid returns the runtime id of the calling goroutine.
func Goid() int64 {
	var buf [64]byte
	n := runtime.Stack(buf[:], false)
	// "goroutine 123 ["
	var id int64
	for i := len("goroutine "); i < n; i++ {
		c := buf[i]
		if c < '0' || c > '9' {
			break
		}
		id = id*10 + int64(c-'0')
	}
	return id
}

func chanPtr(ch interface{}) unsafe.Pointer {
	if ch == nil {
		return nil
	}
	v := reflect.ValueOf(ch)
	if v.Kind() != reflect.Chan {
		panic(fmt.Sprintf("verifshim: not a channel: %T", ch))
	}
	return v.UnsafePointer()
}

// ---- channel statements ----

// Send gates a send statement on ch.
func Send(site string, ch interface{}) {
	if s := Sched; s != nil {
		s.Gate(&Op{Kind: OpSend, Obj: chanPtr(ch), Site: site})
	}
}

// Recv gates a receive on ch.
func Recv(site string, ch interface{}) {
	if s := Sched; s != nil {
		s.Gate(&Op{Kind: OpRecv, Obj: chanPtr(ch), Site: site})
	}
}

// Close gates a close(ch).
func Close(site string, ch interface{}) {
	if s := Sched; s != nil {
		s.Gate(&Op{Kind: OpClose, Obj: chanPtr(ch), Site: site})
	}
}

// Yield is a pure schedule point.
func Yield(site, name string) {
	if s := Sched; s != nil {
		s.Gate(&Op{Kind: OpYield, Site: site, Name: name})
	}
}

// Select gates a select statement. dirs[i] is true for a send clause. The result is passed
// to Pick for every clause.
func Select(site string, hasDefault bool, dirs []bool, chans ...interface{}) int {
	s := Sched
	if s == nil {
		return -1
	}
	cs := make([]Case, len(chans))
	for i, c := range chans {
		cs[i] = Case{Send: dirs[i], Ch: chanPtr(c)}
	}
	return s.Gate(&Op{Kind: OpSelect, Cases: cs, HasDefault: hasDefault, Site: site})
}

// Pick returns ch when clause i may be taken under choice k and a nil channel otherwise.
func Pick[C any](k, i int, ch C) C {
	if k == -1 || k == i {
		return ch
	}
	var zero C
	return zero
}

// ReflectSelect has the contract of reflect.Select.
func ReflectSelect(site string, cases []reflect.SelectCase) (int, reflect.Value, bool) {
	s := Sched
	if s == nil {
		return reflect.Select(cases)
	}
	cs := make([]Case, 0, len(cases))
	idx := make([]int, 0, len(cases))
	hasDefault := false
	for i, c := range cases {
		switch c.Dir {
		case reflect.SelectDefault:
			hasDefault = true
		case reflect.SelectSend:
			var p unsafe.Pointer
			if c.Chan.IsValid() && !c.Chan.IsNil() {
				p = c.Chan.UnsafePointer()
			}
			cs = append(cs, Case{Send: true, Ch: p})
			idx = append(idx, i)
		case reflect.SelectRecv:
			var p unsafe.Pointer
			if c.Chan.IsValid() && !c.Chan.IsNil() {
				p = c.Chan.UnsafePointer()
			}
			cs = append(cs, Case{Ch: p})
			idx = append(idx, i)
		}
	}
	k := s.Gate(&Op{Kind: OpSelect, Cases: cs, HasDefault: hasDefault, Site: site})
	if k < 0 {
		return reflect.Select(cases)
	}
	one := []reflect.SelectCase{cases[idx[k]]}
	_, v, ok := reflect.Select(one)
	return idx[k], v, ok
}

// ---- goroutines ----

// Spawn is called by the parent immediately before a rewritten go statement.
func Spawn() uint64 {
	if s := Sched; s != nil {
		return s.Spawn()
	}
	return 0
}

// Enter is the first call of a spawned goroutine.
func Enter(tok uint64) {
	if s := Sched; s != nil && tok != 0 {
		s.Enter(tok)
		// "spawned but not yet running" is a real state of a goroutine: its first step is a
		// schedule point, so the explorer (not the Go runtime) decides when it starts relative
		// to what its parent does next
		s.Gate(&Op{Kind: OpYield, Name: "go", Site: "go"})
	}
}

// Exit is deferred by a spawned goroutine.
func Exit() {
	s := Sched
	if s == nil {
		return
	}
	// Under the scheduler a panic in a library goroutine is an observation (it would have
	// killed the process); in pass-through mode it propagates as in the original program.
	if r := recover(); r != nil {
		s.Panicked(r, debug.Stack())
	}
	s.Exit()
}

// ---- environment ----

// RandFloat64 replaces math/rand.Float64 in the library (backoff jitter).
func RandFloat64(native func() float64) float64 {
	if s := Sched; s != nil {
		return s.Rand()
	}
	return native()
}

// Keys returns the keys of m in a deterministic order (sorted by their printed form).
func Keys[M ~map[K]V, K comparable, V any](m M) []K {
	ks := make([]K, 0, len(m))
	for k := range m {
		ks = append(ks, k)
	}
	if Sched == nil {
		return ks
	}
	sort.Slice(ks, func(i, j int) bool {
		return fmt.Sprintf("%T:%v", any(ks[i]), any(ks[i])) < fmt.Sprintf("%T:%v", any(ks[j]), any(ks[j]))
	})
	return ks
}

// ---- sync replacements ----

// Mutex replaces sync.Mutex in the instrumented library.
type Mutex struct {
	mu gosync.Mutex
}

func (m *Mutex) Lock() {
	if s := Sched; s != nil {
		s.Gate(&Op{Kind: OpLock, Obj: unsafe.Pointer(m)})
		if !m.mu.TryLock() {
			s.Stuck() // only while draining after the end of an execution
		}
		s.Locked(unsafe.Pointer(m))
		return
	}
	m.mu.Lock()
}

func (m *Mutex) TryLock() bool {
	ok := m.mu.TryLock()
	if ok {
		if s := Sched; s != nil {
			s.Locked(unsafe.Pointer(m))
		}
	}
	return ok
}

func (m *Mutex) Unlock() {
	if s := Sched; s != nil {
		// Unlocking an unlocked mutex is a fatal error that takes the process down without
		// unwinding; under the scheduler it becomes an ordinary panic so that the execution is
		// reported (as a crash of the library goroutine) instead of killing the explorer.
		if m.mu.TryLock() {
			m.mu.Unlock()
			panic("fatal error: sync: unlock of unlocked mutex")
		}
		s.Unlocked(unsafe.Pointer(m))
	}
	m.mu.Unlock()
}

// RWMutex is treated as an exclusive lock under the scheduler (sound: fewer behaviours
// are not hidden because readers never block each other on anything else).
type RWMutex struct {
	mu gosync.RWMutex
}

func (m *RWMutex) Lock() {
	if s := Sched; s != nil {
		s.Gate(&Op{Kind: OpLock, Obj: unsafe.Pointer(m)})
		if !m.mu.TryLock() {
			s.Stuck()
		}
		s.Locked(unsafe.Pointer(m))
		return
	}
	m.mu.Lock()
}

func (m *RWMutex) Unlock() {
	if s := Sched; s != nil {
		s.Unlocked(unsafe.Pointer(m))
	}
	m.mu.Unlock()
}

func (m *RWMutex) RLock() {
	if s := Sched; s != nil {
		s.Gate(&Op{Kind: OpLock, Obj: unsafe.Pointer(m)})
		if !m.mu.TryLock() {
			s.Stuck()
		}
		s.Locked(unsafe.Pointer(m))
		return
	}
	m.mu.RLock()
}

func (m *RWMutex) RUnlock() {
	if s := Sched; s != nil {
		s.Unlocked(unsafe.Pointer(m))
		m.mu.Unlock()
		return
	}
	m.mu.RUnlock()
}

// WaitGroup, Cond, Map and Locker are the native ones: the library never blocks inside them
// across a gate.
type (
	WaitGroup = gosync.WaitGroup
	Map       = gosync.Map
	Locker    = gosync.Locker
)

// Pool replaces sync.Pool by a deterministic LIFO free list. That is one of the behaviours
// sync.Pool allows (Get may return any item Put earlier, or a new one), it makes executions
// reproducible (the native pool is per-P and emptied by the GC), and it makes aliasing through
// a recycled object show up at the first reuse.
type Pool struct {
	New   func() any
	mu    gosync.Mutex
	items []any
}

func (p *Pool) Get() any {
	p.mu.Lock()
	if n := len(p.items); n > 0 {
		x := p.items[n-1]
		p.items = p.items[:n-1]
		p.mu.Unlock()
		return x
	}
	p.mu.Unlock()
	if p.New != nil {
		return p.New()
	}
	return nil
}

func (p *Pool) Put(x any) {
	if x == nil {
		return
	}
	p.mu.Lock()
	p.items = append(p.items, x)
	p.mu.Unlock()
}

// Once replaces sync.Once: under the scheduler a second caller must park at a gate (a
// durable block) rather than on sync.Once's internal mutex while the first caller's
// function is itself parked at a gate.
type Once struct {
	native gosync.Once
	m      Mutex
	done   bool
}

func (o *Once) Do(f func()) {
	if Sched == nil {
		o.native.Do(f)
		return
	}
	o.m.Lock()
	defer o.m.Unlock()
	if !o.done {
		defer func() { o.done = true }()
		f()
	}
}

type Cond = gosync.Cond

func NewCond(l Locker) *Cond { return gosync.NewCond(l) }
