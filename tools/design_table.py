#!/usr/bin/env python3
"""Prints the per-property detection table of DESIGN section 8 from seeded/*/verify.json."""
import json, glob, os, collections
ROOT = os.path.dirname(os.path.dirname(os.path.abspath(__file__)))
rows = collections.OrderedDict()
tot = own = cross = missed = unconf = 0
for d in sorted(glob.glob(os.path.join(ROOT, "seeded", "C*-m*")), key=lambda p: (os.path.basename(p).split("-")[0], int(os.path.basename(p).split("-m")[1]))):
    name = os.path.basename(d)
    prop = name.split("-")[0]
    try:
        r = json.load(open(os.path.join(d, "verify.json")))
    except Exception:
        continue
    e = rows.setdefault(prop, {"n": 0, "own": 0, "others": []})
    if not r.get("ok"):
        unconf += 1
        e["others"].append(f"{name.split('-')[1]}: not confirmed ({r.get('why')})")
        continue
    tot += 1
    e["n"] += 1
    ch = r.get("checks", {})
    if ch.get(prop, {}).get("rc") == 1 and ch[prop].get("violation_lines", 0) > 0:
        own += 1
        e["own"] += 1
        continue
    by = [k for k, v in ch.items() if k != prop and v.get("rc") == 1]
    if by:
        cross += 1
        e["others"].append(f"{name.split('-')[1]}: " + "/".join("`-race` guard" if b == "race" else b for b in by))
    else:
        missed += 1
        e["others"].append(f"{name.split('-')[1]}: **not found**")
print("| Property | seeded | caught by own check | the others (caught by) |")
print("|---|---|---|---|")
for p, e in rows.items():
    print(f"| {p} | {e['n']} | {e['own']} | {'; '.join(e['others'])} |")
print()
print(f"confirmed {tot}, own {own}, other check or guard {cross}, not found {missed}, unconfirmed {unconf}")
