#!/bin/bash
# ingest_round.sh <src-prefix> <offset> <props...>: copies <src-prefix>-<P>/MUTANT{1,2} to seeded/<P>-m<offset+k> and evaluates them
src=$1; off=$2; shift; shift
names=""
cd /verif
for p in "$@"; do for k in 1 2; do
  [ -f $src-$p/MUTANT$k/patch.diff ] || continue
  d=seeded/$p-m$((off+k)); mkdir -p $d; cp $src-$p/MUTANT$k/{patch.diff,demo_test.go,meta.json} $d/; names="$names $p-m$((off+k))"
done; done
VERIF_WORKERS=${VERIF_WORKERS:-4} timeout 6000 python3 tools/mutants_report.py quick $names 2>&1 | tail -1
for n in $names; do python3 -c "
import json; r=json.load(open('seeded/$n/verify.json')); print('$n', r.get('ok'), r.get('why',''), r.get('checks'))"; done
