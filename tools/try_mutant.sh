#!/bin/bash
# try_mutant.sh <property> <mutant-dir> <scratch-worktree> [tier] [extra properties...]
# 1. in the mutant's own scratch worktree: patch applies, tree builds, the existing suite passes,
#    the demonstration fails with the patch and passes without it;
# 2. runs the property's check (and any extra ones) against that worktree with the patch applied.
# Prints one JSON line with the outcome.
set -u
VROOT=$(cd "$(dirname "$0")/.." && pwd)
P=$1; D=$(realpath "$2"); WT=$(realpath "$3"); TIER=${4:-quick}; shift; shift; shift; shift || true
EXTRA="$@"
case "$D" in "$WT"/*) echo "mutant dir must live outside the worktree (go test ./... would pick it up)"; exit 2;; esac
export GOFLAGS=-mod=mod GOPROXY=off GOSUMDB=off GOTOOLCHAIN=local GOLOG_LOG_LEVEL=fatal
log=$D/verify.log; : > $log
fail() { echo "{\"property\":\"$P\",\"dir\":\"$D\",\"ok\":false,\"why\":\"$1\"}"; exit 0; }
cd $WT || fail "no worktree"
git checkout -q -- . ; rm -f $WT/zz_mutant_demo_test.go $WT/httpio/zz_mutant_demo_test.go $WT/auth/zz_mutant_demo_test.go
git apply --check $D/patch.diff >>$log 2>&1 || fail "patch does not apply"
pkgdir=$WT
grep -q '^package httpio' $D/demo_test.go && pkgdir=$WT/httpio
grep -q '^package auth' $D/demo_test.go && pkgdir=$WT/auth
# demo passes without the patch
cp $D/demo_test.go $pkgdir/zz_mutant_demo_test.go
npass=0; for i in 1 2 3; do (cd $pkgdir && timeout 150 go test -vet=off -count=1 -run '^TestMutantDemo$' -timeout 120s . >>$log 2>&1) && npass=$((npass+1)); done
rm -f $pkgdir/zz_mutant_demo_test.go
[ $npass -eq 3 ] || fail "demo does not pass on the unchanged tree ($npass/3)"
git apply $D/patch.diff
go build ./... >>$log 2>&1 || { git checkout -q -- .; fail "does not compile"; }
suite=0; for i in 1 2; do timeout 600 go test -vet=off -count=1 . ./httpio ./auth >>$log 2>&1 && suite=$((suite+1)); done
[ $suite -eq 2 ] || { git checkout -q -- .; fail "existing suite fails with the patch ($suite/2)"; }
cp $D/demo_test.go $pkgdir/zz_mutant_demo_test.go
nfail=0; for i in 1 2 3 4 5; do (cd $pkgdir && timeout 150 go test -vet=off -count=1 -run '^TestMutantDemo$' -timeout 120s . >>$log 2>&1) || nfail=$((nfail+1)); done
rm -f $pkgdir/zz_mutant_demo_test.go
git checkout -q -- .
[ $nfail -ge 4 ] || fail "demo fails only $nfail/5 with the patch"
# now the real checks, against the mutant's worktree with the patch applied (VERIF_REPO), so
# that /repo is never touched and several mutants can be evaluated side by side
git apply $D/patch.diff
mkdir -p $D/evidence $D/replays
res=""
for prop in $P $EXTRA; do
  out=$(cd "$VROOT" && VERIF_REPO=$WT VERIF_EVIDENCE_DIR=$D/evidence VERIF_REPLAY_DIR=$D/replays VERIF_WORKERS=${VERIF_WORKERS:-8} timeout 3000 ./vcheck $prop --tier $TIER 2>&1); rc=$?
  echo "=== vcheck $prop rc=$rc" >>$log; echo "$out" | cut -c1-700 | head -40 >>$log
  nv=$(echo "$out" | grep -c '^VIOLATION')
  res="$res\"$prop\":{\"rc\":$rc,\"violation_lines\":$nv},"
done
git checkout -q -- .
echo "{\"property\":\"$P\",\"dir\":\"$D\",\"ok\":true,\"demo_fail\":\"$nfail/5\",\"tier\":\"$TIER\",\"checks\":{${res%,}}}"
