#!/usr/bin/env python3
"""Evaluates every seeded change under /verif/seeded with tools/try_mutant.sh (sequentially per
scratch worktree, in parallel across properties), stores the outcome in <dir>/verify.json and
in meta.json["verified"], and writes /verif/seeded/RESULTS.md.

usage: tools/mutants_report.py [tier] [only-prefix...]   (scratch worktrees: /tmp/wt-<property>)
"""
import json, os, subprocess, sys, glob, concurrent.futures, re
ROOT = os.path.dirname(os.path.dirname(os.path.abspath(__file__)))
tier = sys.argv[1] if len(sys.argv) > 1 else "quick"
only = sys.argv[2:]
# extra checks to run for a mutant besides its own property (cross-detection that DESIGN mentions)
EXTRA = {"C03-m2": ["C17"], "C08-m1": ["C07"], "C01-m1": ["C14"], "C01-m2": ["C12"], "C07-m4": ["C14"],
         "C01-m3": ["C02"], "C10-m4": ["C08"], "C09-m4": ["C12"],
         "C09-m6": ["C10"], "C12-m5": ["C16"], "C16-m5": ["C02"], "C05-m6": ["C17"], "C02-m6": ["C03", "C18"],
         "C01-m6": ["C20"], "C10-m5": ["C14", "C16"], "C02-m5": ["race"], "C01-m4": ["race"], "C02-m3": ["race"], "C04-m6": ["race"],
         "C12-m7": ["C02"], "C04-m8": ["C09"], "C09-m7": ["C14"], "C01-m7": ["C17"], "C05-m7": ["C17"], "C11-m7": ["C02", "C06"],
         "C02-m7": ["C03", "C05"], "C02-m8": ["C07"], "C10-m7": ["C08"], "C17-m7": ["C03"], "C15-m8": ["C10"], "C08-m8": ["C17"],
         "C20-m8": ["race"], "C16-m7": ["C15"], "C13-m7": ["race"]}
dirs = sorted(d for d in glob.glob(os.path.join(ROOT, "seeded", "C*-m*")) if os.path.isdir(d))
if only:
    dirs = [d for d in dirs if any(os.path.basename(d).startswith(o) for o in only)]
byprop = {}
for d in dirs:
    byprop.setdefault(os.path.basename(d).split("-")[0], []).append(d)

def ensure_wt(prop):
    wt = f"/tmp/wt-{prop}"
    if not os.path.isdir(wt):
        subprocess.run(["git", "-C", "/repo", "worktree", "add", "-q", "--detach", wt, "HEAD"], check=True)
    else:
        subprocess.run(["git", "-C", wt, "checkout", "-q", "--detach", subprocess.run(["git", "-C", "/repo", "rev-parse", "HEAD"], capture_output=True, text=True).stdout.strip()])
    return wt

def run_prop(prop):
    wt = ensure_wt(prop)
    out = []
    for d in byprop[prop]:
        name = os.path.basename(d)
        cmd = [os.path.join(ROOT, "tools", "try_mutant.sh"), prop, d, wt, tier] + EXTRA.get(name, [])
        env = dict(os.environ, VERIF_WORKERS=os.environ.get("VERIF_WORKERS", "4"))
        r = subprocess.run(cmd, capture_output=True, text=True, env=env)
        line = [l for l in r.stdout.splitlines() if l.startswith("{")]
        res = json.loads(line[-1]) if line else {"ok": False, "why": "no result: " + r.stdout[-300:] + r.stderr[-300:]}
        json.dump(res, open(os.path.join(d, "verify.json"), "w"), indent=1)
        mp = os.path.join(d, "meta.json")
        try:
            meta = json.load(open(mp))
        except Exception:
            meta = {}
        meta["verified"] = {"by": "tools/try_mutant.sh", "tier": tier, "result": res,
                            "what_was_run": "patch applied in a scratch worktree of /repo HEAD; go build; repository suite x2; demo x3 without / x5 with the patch; ./vcheck <property> against the patched worktree (VERIF_REPO)"}
        json.dump(meta, open(mp, "w"), indent=1)
        out.append((name, res, meta))
    return out

with concurrent.futures.ThreadPoolExecutor(max_workers=int(os.environ.get("MUT_PAR", "4"))) as ex:
    list(ex.map(run_prop, sorted(byprop)))
# the table is always built from everything on disk, so a partial re-run refreshes only its rows
rows = []
for d in sorted(glob.glob(os.path.join(ROOT, "seeded", "C*-m*"))):
    try:
        rows.append((os.path.basename(d), json.load(open(os.path.join(d, "verify.json"))), json.load(open(os.path.join(d, "meta.json")))))
    except Exception:
        pass
lines = ["# Seeded property-breaking changes and what the checks made of them", "",
         f"tier: {tier}. `caught` = the property's own check exited 1 with a VIOLATION line on the patched tree.", "",
         "| change | what was changed | needs | suite passes | demo fails | caught by own check | other checks |", "|---|---|---|---|---|---|---|"]
caught = total = 0
for name, res, meta in sorted(rows):
    prop = name.split("-")[0]
    if not res.get("ok"):
        lines.append(f"| {name} | {meta.get('summary','')[:110]} | | **not confirmed**: {res.get('why')} | | | |")
        continue
    total += 1
    own = res["checks"].get(prop, {})
    c = own.get("rc") == 1 and own.get("violation_lines", 0) > 0
    caught += c
    others = ", ".join(f"{k}: {'caught' if v.get('rc') == 1 else 'missed'}" for k, v in res["checks"].items() if k != prop)
    lines.append(f"| {name} | {meta.get('summary','')[:160]} | {meta.get('needs','')[:160]} | yes | {res.get('demo_fail')} | {'**yes**' if c else 'NO'} | {others} |")
lines += ["", f"confirmed changes: {total}; caught by the property's own {tier} check: {caught}"]
open(os.path.join(ROOT, "seeded", "RESULTS.md"), "w").write("\n".join(lines) + "\n")
print("\n".join(lines[-3:]))
