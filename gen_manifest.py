#!/usr/bin/env python3
"""Regenerates MANIFEST.json from checks.py (the single source of truth for what is claimed)."""
import json, sys, os
ROOT = os.path.dirname(os.path.abspath(__file__))
sys.path.insert(0, ROOT)
from checks import CHECKS, NOT_APPLICABLE, TEXT

props = [json.loads(l) for l in open(os.path.join(ROOT, "properties.jsonl"))]
checks = []
for p in props:
    pid = p["id"]
    if pid not in CHECKS:
        continue
    spec = CHECKS[pid]
    t = TEXT.get(pid, {})
    engine = "vsched-explorer" if spec["kind"] == "explore" else "seqx-enumerator"
    checks.append({
        "property_id": pid,
        "quick_cmd": f"./vcheck {pid} --tier quick",
        "thorough_cmd": f"./vcheck {pid} --tier thorough",
        "evidence_file": f"/verif/evidence/{pid}.json",
        "replay_cmd_template": f"./vcheck {pid} --replay {{path}}",
        "engine": engine,
        "level_claimed": {"category": "model_checking", "text": t.get("level", ""), "design_ref": t.get("design_ref", "DESIGN.md §3 " + pid)},
        "level_note": t.get("note", "; ".join(spec.get("assumptions", []))),
        "technique": t.get("technique", "stateless model checking of the implementation: deviation-bounded exhaustive search (level by level in the number of deviations) over scheduler choices under a controlled scheduler" if spec["kind"] == "explore" else "bounded-exhaustive enumeration of a finite input/configuration grammar against a reference model"),
    })
na = [{"property_id": p["id"], "reason": NOT_APPLICABLE.get(p["id"], "check not built yet")} for p in props if p["id"] not in CHECKS]
m = {
    "version": 1,
    "setup_cmd": "./setup.sh",
    "hooks": {
        "guard": "verif",
        "enable": "go test -tags verif -overlay <overlay.json>: cmd/vinstr rewrites the working tree's sources at build time and injects package verifshim (build tag verif) into the module plus one build-tagged file into the root package (shim/root/verif_hooks.go: lets the harness point the library's default HTTP client at the in-memory network); nothing is committed to /repo for hooks",
        "baseline_off_cmd": "cd /repo && GOFLAGS=-mod=mod GOPROXY=off GOSUMDB=off go test -vet=off -count=1 ./...",
        "source_commits": [],
        "add_only": True,
    },
    "engines": [
        {"name": "vsched-explorer", "path": "harness/vsched", "kind_free_text": "controlled scheduler (testing/synctest bubble + gates before every sync op, inserted by source rewriting) and stateless deviation-bounded DFS explorer over the real implementation; in-memory network with fault injection (harness/vnet)",
         "serves_properties": [k for k, v in CHECKS.items() if v["kind"] == "explore"]},
        {"name": "seqx-enumerator", "path": "harness/seqx", "kind_free_text": "bounded-exhaustive odometer enumeration of input/configuration grammars against reference models written in Go",
         "serves_properties": [k for k, v in CHECKS.items() if v["kind"] == "seqx"]},
    ],
    "checks": checks,
    "not_applicable": na,
    "notes": "See DESIGN.md. Exit code 2 from a check means machinery trouble (BUILD-FAILED, HARNESS-*), never a verdict.",
}
json.dump(m, open(os.path.join(ROOT, "MANIFEST.json"), "w"), indent=1)
print("claimed:", [c["property_id"] for c in checks])
