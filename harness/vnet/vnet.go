// Package vnet is an in-memory network for use inside a synctest bubble: net.Conn pairs
// with unbounded byte queues (cond based, so every wait is a durable block), deadlines on
// the bubble clock, a listener, a complete wire log, and injectable faults.
package vnet

import (
	"context"
	"errors"
	"fmt"
	"io"
	"net"
	"os"
	"sync"
	"time"
)

// FaultKind is the way a link dies.
type FaultKind int

const (
	None      FaultKind = iota
	FIN                 // both ends read EOF after the bytes already delivered; writes are discarded
	RST                 // reads and writes fail at once, queued bytes are lost
	Blackhole           // bytes are accepted and dropped, nothing is delivered, no error
)

func (k FaultKind) String() string {
	return [...]string{"none", "FIN", "RST", "BLACKHOLE"}[k]
}

// Dir is a direction on a link.
type Dir int

const (
	C2S Dir = iota // client to server
	S2C
)

func (d Dir) String() string {
	if d == C2S {
		return "c2s"
	}
	return "s2c"
}

// Cut is a fault armed on a link: when the byte count in direction Dir reaches After, the
// link dies as Kind. The write that crosses the position delivers only the prefix.
type Cut struct {
	Kind  FaultKind
	Dir   Dir
	After int
	// Inclusive: the fault strikes as soon as After bytes have been delivered (instead of when
	// the next byte is about to be).
	Inclusive bool
}

// Where is a position relative to a WebSocket frame.
type Where int

const (
	Before   Where = iota // no byte of the frame is delivered
	InHeader              // one byte of the header
	MidPayload
	LastByte // everything but the last byte
	After    // the whole frame, then the link dies at once
)

func (w Where) String() string {
	return [...]string{"before", "in-header", "mid-payload", "last-byte", "after"}[w]
}

// FrameCut arms a fault relative to the Frame-th WebSocket frame (0-based, counted after the
// HTTP upgrade, control frames included) written in direction Dir. It is resolved to a byte
// offset when that frame's header is seen, so the position is stable across schedules.
type FrameCut struct {
	Kind  FaultKind
	Dir   Dir
	Frame int
	Where Where
	// DataOnly: Frame counts data frames (text, binary, continuation) only, so that ping and
	// pong frames travelling in the same direction do not shift the target
	DataOnly bool
}

// tracker follows the WebSocket framing of one direction incrementally.
type tracker struct {
	hs      []byte // handshake bytes seen so far (until \r\n\r\n)
	hsDone  bool
	hdr     []byte // header bytes of the frame being started
	remain  int    // payload bytes still to come in the current frame
	frames  int    // frames whose header has been completed
	dframes int    // data frames among them
	off     int    // absolute offset of the next byte
	started int    // absolute offset where the current frame started
}

// feed consumes p and calls onFrame(index, index among data frames or -1, start, headerLen,
// payloadLen) for each frame whose header completes inside p.
func (t *tracker) feed(p []byte, onFrame func(idx, didx, start, hlen, plen int)) {
	for len(p) > 0 {
		if !t.hsDone {
			t.hs = append(t.hs, p[0])
			p = p[1:]
			t.off++
			n := len(t.hs)
			if n >= 4 && string(t.hs[n-4:]) == "\r\n\r\n" {
				t.hsDone = true
				t.hs = nil
			}
			continue
		}
		if t.remain > 0 {
			k := t.remain
			if k > len(p) {
				k = len(p)
			}
			t.remain -= k
			t.off += k
			p = p[k:]
			continue
		}
		if len(t.hdr) == 0 {
			t.started = t.off
		}
		t.hdr = append(t.hdr, p[0])
		p = p[1:]
		t.off++
		if hl, pl, ok := parseHeader(t.hdr); ok {
			didx := -1
			if t.hdr[0]&0x08 == 0 { // opcodes 0..7 are data frames, 8..15 control frames
				didx = t.dframes
				t.dframes++
			}
			onFrame(t.frames, didx, t.started, hl, pl)
			t.frames++
			t.remain = pl
			t.hdr = nil
		}
	}
}

func parseHeader(h []byte) (hlen, plen int, ok bool) {
	if len(h) < 2 {
		return 0, 0, false
	}
	need := 2
	n := int(h[1] & 0x7f)
	if n == 126 {
		need += 2
	} else if n == 127 {
		need += 8
	}
	if h[1]&0x80 != 0 {
		need += 4
	}
	if len(h) < need {
		return 0, 0, false
	}
	switch n {
	case 126:
		n = int(h[2])<<8 | int(h[3])
	case 127:
		n = 0
		for k := 0; k < 8; k++ {
			n = n<<8 | int(h[2+k])
		}
	}
	return need, n, true
}

// Hooks lets the scheduler see writes.
type Hooks struct {
	// BeforeWrite is called (outside vnet's lock) before each Write; it may park the caller.
	BeforeWrite func(l *Link, d Dir, p []byte)
	// BeforeDial is called before each dial; it may park the caller.
	BeforeDial func(addr string)
	// Now returns the virtual time for log entries.
	Now func() time.Duration
}

// Net is one network instance (one per execution).
type Net struct {
	mu        sync.Mutex
	listeners map[string]*Listener
	Links     []*Link
	hooks     Hooks
	failDials int
	armed     map[int]*Cut // by link ordinal (0-based dial order)
	armedF    map[int]*FrameCut
	DialLog   []DialEvent
	closed    bool
	seqMu     sync.Mutex
	seq       int
}

// DialEvent is one dial attempt.
type DialEvent struct {
	At   time.Duration
	Addr string
	OK   bool
	Link int
}

func New(h Hooks) *Net {
	if h.Now == nil {
		h.Now = func() time.Duration { return 0 }
	}
	return &Net{listeners: map[string]*Listener{}, hooks: h, armed: map[int]*Cut{}, armedF: map[int]*FrameCut{}}
}

// FailDials makes the next n dials fail.
func (n *Net) FailDials(k int) {
	n.mu.Lock()
	n.failDials = k
	n.mu.Unlock()
}

// Arm arms a cut on the link that will be (or was) created by the ord-th successful dial.
func (n *Net) Arm(ord int, c Cut) {
	n.mu.Lock()
	cc := c
	n.armed[ord] = &cc
	if ord < len(n.Links) {
		n.Links[ord].arm(&cc)
	}
	n.mu.Unlock()
}

// ArmFrame arms a frame-relative cut on the link created by the ord-th successful dial. It
// must be armed before the frame in question is written.
func (n *Net) ArmFrame(ord int, c FrameCut) {
	n.mu.Lock()
	cc := c
	n.armedF[ord] = &cc
	if ord < len(n.Links) {
		lk := n.Links[ord]
		lk.mu.Lock()
		lk.fcut = &cc
		lk.mu.Unlock()
	}
	n.mu.Unlock()
}

type addr string

func (a addr) Network() string { return "vnet" }
func (a addr) String() string  { return string(a) }

// Listener implements net.Listener.
type Listener struct {
	n      *Net
	a      string
	mu     sync.Mutex
	cond   *sync.Cond
	queue  []net.Conn
	closed bool
}

func (n *Net) Listen(a string) *Listener {
	l := &Listener{n: n, a: a}
	l.cond = sync.NewCond(&l.mu)
	n.mu.Lock()
	n.listeners[a] = l
	n.mu.Unlock()
	return l
}

func (l *Listener) Accept() (net.Conn, error) {
	l.mu.Lock()
	defer l.mu.Unlock()
	for len(l.queue) == 0 && !l.closed {
		l.cond.Wait()
	}
	if l.closed {
		return nil, net.ErrClosed
	}
	c := l.queue[0]
	l.queue = l.queue[1:]
	return c, nil
}

func (l *Listener) Close() error {
	l.mu.Lock()
	l.closed = true
	l.cond.Broadcast()
	l.mu.Unlock()
	return nil
}

func (l *Listener) Addr() net.Addr { return addr(l.a) }

// Dial connects to a listener.
func (n *Net) Dial(a string) (net.Conn, error) {
	if h := n.hooks.BeforeDial; h != nil {
		h(a)
	}
	n.mu.Lock()
	if n.closed {
		n.mu.Unlock()
		return nil, errors.New("vnet: network closed")
	}
	if n.failDials > 0 {
		n.failDials--
		n.DialLog = append(n.DialLog, DialEvent{At: n.hooks.Now(), Addr: a, OK: false, Link: -1})
		n.mu.Unlock()
		return nil, &net.OpError{Op: "dial", Net: "vnet", Err: errors.New("connection refused")}
	}
	l := n.listeners[a]
	if l == nil {
		n.DialLog = append(n.DialLog, DialEvent{At: n.hooks.Now(), Addr: a, OK: false, Link: -1})
		n.mu.Unlock()
		return nil, &net.OpError{Op: "dial", Net: "vnet", Err: errors.New("no listener")}
	}
	ord := len(n.Links)
	lk := newLink(n, ord, a)
	n.Links = append(n.Links, lk)
	if c := n.armed[ord]; c != nil {
		lk.arm(c)
	}
	if c := n.armedF[ord]; c != nil {
		lk.fcut = c
	}
	n.DialLog = append(n.DialLog, DialEvent{At: n.hooks.Now(), Addr: a, OK: true, Link: ord})
	n.mu.Unlock()

	l.mu.Lock()
	if l.closed {
		l.mu.Unlock()
		return nil, &net.OpError{Op: "dial", Net: "vnet", Err: errors.New("connection refused")}
	}
	l.queue = append(l.queue, lk.Server)
	l.cond.Broadcast()
	l.mu.Unlock()
	return lk.Client, nil
}

func (n *Net) DialContext(ctx context.Context, network, a string) (net.Conn, error) {
	return n.Dial(a)
}

// CloseAll resets every link and closes every listener (teardown).
func (n *Net) CloseAll() {
	n.mu.Lock()
	n.closed = true
	links := append([]*Link(nil), n.Links...)
	var ls []*Listener
	for _, l := range n.listeners {
		ls = append(ls, l)
	}
	n.mu.Unlock()
	for _, l := range ls {
		l.Close()
	}
	for _, lk := range links {
		lk.Sever(RST)
	}
}

// Link is one connection: two Conn ends sharing state.
type Link struct {
	n    *Net
	Ord  int
	Addr string

	mu   sync.Mutex
	cond *sync.Cond

	q       [2][]byte // bytes in flight per direction
	written [2]int    // bytes accepted per direction before any fault
	Log     [2][]byte // bytes delivered into the queue per direction (the wire)
	Writes  [2][]WriteRec
	fault   FaultKind
	faultAt time.Duration
	cut     *Cut
	fcut    *FrameCut
	trk     [2]tracker
	stall   [2]bool // writes in this direction block (the peer is alive but not reading and the buffers are full)
	werr    [2]bool // writes in this direction fail (the sender's half of the connection is broken) while nobody is told
	eof     [2]bool // the reader of this direction sees end-of-file once it has drained what was sent; the other direction lives on
	thr     [2]throttle
	closed  [2]bool // local Close called on client(0) / server(1) end
	dl      [2]time.Time
	dlTimer [2]*time.Timer

	Client *Conn
	Server *Conn
}

// throttle is the bandwidth limit of one direction: the reader receives at most chunk bytes per
// period of (virtual) time, counted from the moment the limit was set.
type throttle struct {
	chunk int
	every time.Duration
	t0    time.Duration
	used  int
	timer *time.Timer
}

// WriteRec is one Write call as seen on the wire log.
type WriteRec struct {
	Seq      int // global order of writes on the whole network
	Off, Len int
	At       time.Duration
	Who      string
	Held     []uintptr
}

func newLink(n *Net, ord int, a string) *Link {
	lk := &Link{n: n, Ord: ord, Addr: a}
	lk.cond = sync.NewCond(&lk.mu)
	lk.Client = &Conn{l: lk, end: 0}
	lk.Server = &Conn{l: lk, end: 1}
	return lk
}

func (lk *Link) arm(c *Cut) {
	lk.mu.Lock()
	lk.cut = c
	if c.After <= lk.written[c.Dir] && lk.fault == None {
		lk.applyFault(c.Kind)
	}
	lk.mu.Unlock()
}

// Sever kills the link now.
func (lk *Link) Sever(k FaultKind) {
	lk.mu.Lock()
	if lk.fault == None || k == RST {
		lk.applyFault(k)
	}
	lk.mu.Unlock()
}

// Fault reports the fault that hit the link, if any.
func (lk *Link) Fault() (FaultKind, time.Duration) {
	lk.mu.Lock()
	defer lk.mu.Unlock()
	return lk.fault, lk.faultAt
}

func (lk *Link) applyFault(k FaultKind) {
	lk.fault = k
	lk.faultAt = lk.n.hooks.Now()
	// RST: bytes that already arrived stay readable (the peer may well have consumed them
	// before the reset came in); once they are drained every read fails. A reset that strikes
	// before any byte of a frame is the "data lost" case.
	lk.cond.Broadcast()
}

// Conn is one end of a Link and implements net.Conn.
type Conn struct {
	l   *Link
	end int // 0 client, 1 server
}

// WriterInfo is set by the harness to annotate writes (goroutine id and lockset).
var WriterInfo func() (string, []uintptr)

func (c *Conn) outDir() Dir {
	if c.end == 0 {
		return C2S
	}
	return S2C
}

func (c *Conn) inDir() Dir {
	if c.end == 0 {
		return S2C
	}
	return C2S
}

// Link returns the link this end belongs to.
func (c *Conn) Link() *Link { return c.l }

var errReset = &net.OpError{Op: "read", Net: "vnet", Err: errors.New("connection reset by peer")}

func (c *Conn) Read(p []byte) (int, error) {
	lk := c.l
	d := c.inDir()
	lk.mu.Lock()
	defer lk.mu.Unlock()
	for {
		if lk.closed[c.end] {
			return 0, net.ErrClosed
		}
		if len(lk.q[d]) > 0 {
			avail := len(lk.q[d])
			if th := &lk.thr[d]; th.chunk > 0 {
				now := lk.n.hooks.Now()
				allowed := th.chunk*(1+int((now-th.t0)/th.every)) - th.used
				if allowed <= 0 {
					// nothing more in this period: wake up when the next one starts
					if !lk.dl[c.end].IsZero() && !time.Now().Before(lk.dl[c.end]) {
						return 0, os.ErrDeadlineExceeded
					}
					if th.timer == nil {
						wait := th.every - (now-th.t0)%th.every
						th.timer = time.AfterFunc(wait, func() {
							lk.mu.Lock()
							lk.thr[d].timer = nil
							lk.cond.Broadcast()
							lk.mu.Unlock()
						})
					}
					lk.cond.Wait()
					continue
				}
				if avail > allowed {
					avail = allowed
				}
				if avail > len(p) {
					avail = len(p)
				}
				th.used += avail
			}
			n := copy(p, lk.q[d][:avail])
			lk.q[d] = lk.q[d][n:]
			return n, nil
		}
		if lk.fault == RST {
			return 0, errReset
		}
		if lk.closed[1-c.end] || lk.fault == FIN || lk.eof[d] {
			return 0, io.EOF
		}
		if !lk.dl[c.end].IsZero() && !time.Now().Before(lk.dl[c.end]) {
			return 0, os.ErrDeadlineExceeded
		}
		lk.cond.Wait()
	}
}

func (c *Conn) Write(p []byte) (int, error) {
	lk := c.l
	d := c.outDir()
	if h := lk.n.hooks.BeforeWrite; h != nil {
		h(lk, d, p)
	}
	lk.mu.Lock()
	defer lk.mu.Unlock()
	// back-pressure: a stalled direction accepts nothing until the link dies or an end closes
	for lk.stall[d] && !lk.werr[d] && lk.fault == None && !lk.closed[0] && !lk.closed[1] {
		lk.cond.Wait()
	}
	if lk.closed[c.end] {
		return 0, net.ErrClosed
	}
	if lk.werr[d] {
		return 0, &net.OpError{Op: "write", Net: "vnet", Err: errors.New("broken pipe")}
	}
	switch lk.fault {
	case RST:
		return 0, &net.OpError{Op: "write", Net: "vnet", Err: errors.New("broken pipe")}
	case FIN, Blackhole:
		return len(p), nil
	}
	if lk.closed[1-c.end] {
		return 0, &net.OpError{Op: "write", Net: "vnet", Err: errors.New("broken pipe")}
	}
	lk.trk[d].feed(p, func(idx, didx, start, hlen, plen int) {
		fc := lk.fcut
		if fc != nil && fc.DataOnly {
			idx = didx
		}
		if fc == nil || fc.Dir != d || fc.Frame != idx || lk.cut != nil {
			return
		}
		c := &Cut{Kind: fc.Kind, Dir: d}
		switch fc.Where {
		case Before:
			c.After = start
		case InHeader:
			c.After = start + 1
		case MidPayload:
			c.After = start + hlen + plen/2
		case LastByte:
			c.After = start + hlen + plen - 1
		case After:
			c.After = start + hlen + plen
			c.Inclusive = true
		}
		lk.cut = c
	})
	deliver := p
	hit := false
	if lk.cut != nil && lk.cut.Dir == d && lk.cut.Inclusive && lk.fault == None && lk.written[d]+len(p) >= lk.cut.After {
		k := lk.cut.After - lk.written[d]
		if k < 0 {
			k = 0
		}
		if k > len(p) {
			k = len(p)
		}
		deliver = p[:k]
		hit = true
	} else if lk.cut != nil && lk.cut.Dir == d && !lk.cut.Inclusive && lk.written[d]+len(p) > lk.cut.After {
		k := lk.cut.After - lk.written[d]
		if k < 0 {
			k = 0
		}
		deliver = p[:k]
		hit = true
	}
	if len(deliver) > 0 {
		rec := WriteRec{Off: len(lk.Log[d]), Len: len(deliver), At: lk.n.hooks.Now(), Seq: lk.n.nextSeq()}
		if WriterInfo != nil {
			rec.Who, rec.Held = WriterInfo()
		}
		lk.Writes[d] = append(lk.Writes[d], rec)
		lk.q[d] = append(lk.q[d], deliver...)
		lk.Log[d] = append(lk.Log[d], deliver...)
		lk.written[d] += len(deliver)
		lk.cond.Broadcast()
	}
	if hit {
		kind := lk.cut.Kind
		lk.applyFault(kind)
		if kind == RST {
			return len(deliver), &net.OpError{Op: "write", Net: "vnet", Err: errors.New("connection reset by peer")}
		}
	}
	return len(p), nil
}

func (c *Conn) Close() error {
	lk := c.l
	lk.mu.Lock()
	defer lk.mu.Unlock()
	if lk.closed[c.end] {
		return net.ErrClosed
	}
	lk.closed[c.end] = true
	if t := lk.dlTimer[c.end]; t != nil {
		t.Stop()
	}
	lk.cond.Broadcast()
	return nil
}

func (c *Conn) LocalAddr() net.Addr {
	if c.end == 0 {
		return addr(fmt.Sprintf("cli-%d", c.l.Ord))
	}
	return addr(c.l.Addr)
}

func (c *Conn) RemoteAddr() net.Addr {
	if c.end == 0 {
		return addr(c.l.Addr)
	}
	return addr(fmt.Sprintf("cli-%d", c.l.Ord))
}

func (c *Conn) SetDeadline(t time.Time) error {
	c.SetReadDeadline(t)
	return nil
}

func (c *Conn) SetReadDeadline(t time.Time) error {
	lk := c.l
	lk.mu.Lock()
	defer lk.mu.Unlock()
	lk.dl[c.end] = t
	if old := lk.dlTimer[c.end]; old != nil {
		old.Stop()
		lk.dlTimer[c.end] = nil
	}
	if !t.IsZero() {
		d := time.Until(t)
		if d <= 0 {
			lk.cond.Broadcast()
		} else {
			lk.dlTimer[c.end] = time.AfterFunc(d, func() {
				lk.mu.Lock()
				lk.cond.Broadcast()
				lk.mu.Unlock()
			})
		}
	}
	return nil
}

func (c *Conn) SetWriteDeadline(t time.Time) error { return nil }

// ClosedEnds reports which ends called Close.
func (lk *Link) ClosedEnds() (client, server bool) {
	lk.mu.Lock()
	defer lk.mu.Unlock()
	return lk.closed[0], lk.closed[1]
}

// Wire returns a copy of the bytes delivered in direction d.
func (lk *Link) Wire(d Dir) []byte {
	lk.mu.Lock()
	defer lk.mu.Unlock()
	return append([]byte(nil), lk.Log[d]...)
}

func (n *Net) nextSeq() int {
	n.seqMu.Lock()
	defer n.seqMu.Unlock()
	n.seq++
	return n.seq
}

// Dials returns a copy of the dial log.
func (n *Net) Dials() []DialEvent {
	n.mu.Lock()
	defer n.mu.Unlock()
	return append([]DialEvent(nil), n.DialLog...)
}

// LinkCount returns the number of links created so far.
func (n *Net) LinkCount() int {
	n.mu.Lock()
	defer n.mu.Unlock()
	return len(n.Links)
}

// Link returns the i-th link or nil.
func (n *Net) Link(i int) *Link {
	n.mu.Lock()
	defer n.mu.Unlock()
	if i < len(n.Links) {
		return n.Links[i]
	}
	return nil
}

// WriteLog returns a copy of the write records of direction d.
func (lk *Link) WriteLog(d Dir) []WriteRec {
	lk.mu.Lock()
	defer lk.mu.Unlock()
	return append([]WriteRec(nil), lk.Writes[d]...)
}

// Inject writes raw bytes into direction d as if the sending endpoint had written them (used
// to play a misbehaving peer: malformed frames in the middle of a healthy conversation).
func (lk *Link) Inject(d Dir, p []byte) {
	if d == C2S {
		lk.Client.Write(p)
	} else {
		lk.Server.Write(p)
	}
}

// TextFrame builds one complete WebSocket text frame (masked with an all-zero key when
// fromClient, as the protocol requires of clients).
func TextFrame(payload []byte, fromClient bool) []byte {
	var b []byte
	b = append(b, 0x81)
	mask := byte(0)
	if fromClient {
		mask = 0x80
	}
	switch n := len(payload); {
	case n < 126:
		b = append(b, mask|byte(n))
	case n < 65536:
		b = append(b, mask|126, byte(n>>8), byte(n))
	default:
		b = append(b, mask|127, 0, 0, 0, 0, byte(n>>24), byte(n>>16), byte(n>>8), byte(n))
	}
	if fromClient {
		b = append(b, 0, 0, 0, 0)
	}
	return append(b, payload...)
}

// Stall makes every further write in direction d block, as a full TCP send buffer towards a
// peer that has stopped reading does, until the link dies or one end closes it.
func (lk *Link) Stall(d Dir) {
	lk.mu.Lock()
	lk.stall[d] = true
	lk.mu.Unlock()
}

// BreakWrites makes every further write in direction d fail with "broken pipe" while neither
// reader is told anything: the half-broken connection a sender sees after its own side has shut
// down for writing (or the path has started rejecting its packets) and before any read fails.
func (lk *Link) BreakWrites(d Dir) {
	lk.mu.Lock()
	lk.werr[d] = true
	lk.cond.Broadcast()
	lk.mu.Unlock()
}

// HalfClose ends direction d only: its reader sees end-of-file after draining what was sent,
// the opposite direction keeps working (or stalling) as before.
func (lk *Link) HalfClose(d Dir) {
	lk.mu.Lock()
	lk.eof[d] = true
	lk.cond.Broadcast()
	lk.mu.Unlock()
}

// Throttle limits direction d to chunk bytes per period from now on: a slow but steady link.
// Bytes written are queued as usual; the reader is handed at most chunk bytes per period.
func (lk *Link) Throttle(d Dir, chunk int, every time.Duration) {
	lk.mu.Lock()
	lk.thr[d] = throttle{chunk: chunk, every: every, t0: lk.n.hooks.Now()}
	lk.cond.Broadcast()
	lk.mu.Unlock()
}
