package vnet

import (
	"bytes"
	"fmt"
)

// WSMessage is one WebSocket message reassembled from the wire log.
type WSMessage struct {
	Opcode  int // 1 text, 2 binary, 8 close, 9 ping, 10 pong
	Payload []byte
	Off     int // offset of its first frame in the stream
	End     int // offset just past its last frame
	Frames  int
}

// WSStream is the parse of one direction of a link.
type WSStream struct {
	HandshakeLen int
	Messages     []WSMessage
	FrameBounds  [][2]int // [start,end) of every complete frame
	FrameOps     []int    // opcode of every complete frame
	Truncated    bool     // the stream ends inside a frame or inside a fragmented message
	Errors       []string // framing violations (interleaving, bad continuation, reserved bits)
}

// ParseWS parses the bytes that travelled in one direction of a WebSocket connection,
// starting with the HTTP upgrade request or response.
func ParseWS(b []byte) *WSStream {
	s := &WSStream{}
	i := bytes.Index(b, []byte("\r\n\r\n"))
	if i < 0 {
		s.Truncated = len(b) > 0
		s.HandshakeLen = len(b)
		return s
	}
	p := i + 4
	s.HandshakeLen = p
	var cur *WSMessage
	for p < len(b) {
		start := p
		if len(b)-p < 2 {
			s.Truncated = true
			break
		}
		b0, b1 := b[p], b[p+1]
		fin := b0&0x80 != 0
		if b0&0x70 != 0 {
			s.Errors = append(s.Errors, fmt.Sprintf("reserved bits set at %d", p))
		}
		op := int(b0 & 0x0f)
		masked := b1&0x80 != 0
		n := int(b1 & 0x7f)
		p += 2
		switch n {
		case 126:
			if len(b)-p < 2 {
				s.Truncated = true
				p = len(b)
				continue
			}
			n = int(b[p])<<8 | int(b[p+1])
			p += 2
		case 127:
			if len(b)-p < 8 {
				s.Truncated = true
				p = len(b)
				continue
			}
			n = 0
			for k := 0; k < 8; k++ {
				n = n<<8 | int(b[p+k])
			}
			p += 8
		}
		var key [4]byte
		if masked {
			if len(b)-p < 4 {
				s.Truncated = true
				p = len(b)
				continue
			}
			copy(key[:], b[p:p+4])
			p += 4
		}
		if n < 0 || len(b)-p < n {
			s.Truncated = true
			p = len(b)
			continue
		}
		payload := append([]byte(nil), b[p:p+n]...)
		if masked {
			for k := range payload {
				payload[k] ^= key[k&3]
			}
		}
		p += n
		s.FrameBounds = append(s.FrameBounds, [2]int{start, p})
		s.FrameOps = append(s.FrameOps, op)
		switch {
		case op >= 8: // control frame
			if !fin || n > 125 {
				s.Errors = append(s.Errors, fmt.Sprintf("bad control frame at %d", start))
			}
			s.Messages = append(s.Messages, WSMessage{Opcode: op, Payload: payload, Off: start, End: p, Frames: 1})
		case op == 0:
			if cur == nil {
				s.Errors = append(s.Errors, fmt.Sprintf("continuation frame without a message at %d", start))
				continue
			}
			cur.Payload = append(cur.Payload, payload...)
			cur.Frames++
			cur.End = p
			if fin {
				s.Messages = append(s.Messages, *cur)
				cur = nil
			}
		default:
			if cur != nil {
				s.Errors = append(s.Errors, fmt.Sprintf("data frame at %d interleaved into the unfinished message that began at %d", start, cur.Off))
			}
			m := WSMessage{Opcode: op, Payload: payload, Off: start, End: p, Frames: 1}
			if fin {
				s.Messages = append(s.Messages, m)
				cur = nil
			} else {
				cur = &m
			}
		}
	}
	if cur != nil {
		s.Truncated = true
	}
	return s
}

// Data returns the text and binary messages.
func (s *WSStream) Data() []WSMessage {
	var out []WSMessage
	for _, m := range s.Messages {
		if m.Opcode == 1 || m.Opcode == 2 {
			out = append(out, m)
		}
	}
	return out
}
