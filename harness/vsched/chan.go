package vsched

import (
	"fmt"
	"time"
	"unsafe"
)

// Mirror of runtime.hchan / runtime.timer for go1.26.8 (runtime/chan.go, runtime/time.go).
// Only read while the bubble is quiescent (after synctest.Wait), so no locking is needed.
// SelfTest checks the layout at start-up.
type waitq struct {
	first unsafe.Pointer
	last  unsafe.Pointer
}

type hchan struct {
	qcount   uint
	dataqsiz uint
	buf      unsafe.Pointer
	elemsize uint16
	closed   uint32
	timer    unsafe.Pointer
	elemtype unsafe.Pointer
	sendx    uint
	recvx    uint
	recvq    waitq
	sendq    waitq
	bubble   unsafe.Pointer
	lock     uintptr
}

type rtimer struct {
	mu      uintptr
	astate  uint8
	state   uint8
	isChan  bool
	isFake  bool
	blocked uint32
	rand    uint32
	when    int64
	period  int64
}

// clock converts bubble time to the runtime's timer units.
type clock struct {
	t0  time.Time
	rt0 int64
}

func chanPtrOf(ch interface{}) unsafe.Pointer {
	type eface struct {
		typ, data unsafe.Pointer
	}
	return (*eface)(unsafe.Pointer(&ch)).data
}

func calibrate() clock {
	t := time.NewTimer(time.Hour)
	defer t.Stop()
	now := time.Now()
	c := (*hchan)(chanPtrOf(t.C))
	if c.timer == nil {
		panic("vsched: timer channel has no timer; runtime layout changed")
	}
	rt := (*rtimer)(c.timer)
	return clock{t0: now, rt0: rt.when - int64(time.Hour)}
}

func (c clock) now() int64 { return c.rt0 + int64(time.Since(c.t0)) }

// recvReady reports whether a receive from the channel would complete without blocking.
func recvReady(p unsafe.Pointer, now int64) bool {
	if p == nil {
		return false
	}
	c := (*hchan)(p)
	if c.qcount > 0 || c.closed != 0 || c.sendq.first != nil {
		return true
	}
	if c.timer != nil {
		t := (*rtimer)(c.timer)
		if t.when != 0 && t.when <= now {
			return true
		}
	}
	return false
}

// sendReady reports whether a send would complete (or panic) without blocking.
func sendReady(p unsafe.Pointer) bool {
	if p == nil {
		return false
	}
	c := (*hchan)(p)
	return c.closed != 0 || c.qcount < c.dataqsiz || c.recvq.first != nil
}

// SelfTest validates the mirrored layouts against the running runtime. It must be called
// inside a synctest bubble.
func SelfTest(wait func()) error {
	ch := make(chan int, 3)
	p := chanPtrOf(ch)
	h := (*hchan)(p)
	if h.dataqsiz != 3 || h.qcount != 0 || h.elemsize != uint16(unsafe.Sizeof(int(0))) {
		return fmt.Errorf("hchan layout: dataqsiz=%d qcount=%d elemsize=%d", h.dataqsiz, h.qcount, h.elemsize)
	}
	ch <- 1
	ch <- 2
	if h.qcount != 2 || !recvReady(p, 0) || !sendReady(p) {
		return fmt.Errorf("hchan qcount=%d", h.qcount)
	}
	ch <- 3
	if sendReady(p) {
		return fmt.Errorf("full channel reported send-ready")
	}
	close(ch)
	if h.closed == 0 {
		return fmt.Errorf("hchan closed flag not seen")
	}
	un := make(chan int)
	up := chanPtrOf(un)
	if recvReady(up, 0) || sendReady(up) {
		return fmt.Errorf("idle unbuffered channel reported ready")
	}
	go func() { un <- 7 }()
	wait()
	if !recvReady(up, 0) || sendReady(up) {
		return fmt.Errorf("blocked sender not visible in sendq")
	}
	<-un
	go func() { <-un }()
	wait()
	if !sendReady(up) || recvReady(up, 0) {
		return fmt.Errorf("blocked receiver not visible in recvq")
	}
	un <- 1
	// select waiters must be visible too
	a, b := make(chan int), make(chan int)
	go func() {
		select {
		case <-a:
		case <-b:
		}
	}()
	wait()
	if !sendReady(chanPtrOf(a)) || !sendReady(chanPtrOf(b)) {
		return fmt.Errorf("select waiter not visible")
	}
	a <- 1
	wait()
	if sendReady(chanPtrOf(b)) {
		return fmt.Errorf("select waiter not dequeued from second channel")
	}
	// timers
	clk := calibrate()
	t := time.NewTimer(50 * time.Millisecond)
	tp := chanPtrOf(t.C)
	if recvReady(tp, clk.now()) {
		return fmt.Errorf("fresh timer reported ready")
	}
	time.Sleep(49 * time.Millisecond)
	if recvReady(tp, clk.now()) {
		return fmt.Errorf("timer ready 1ms early")
	}
	time.Sleep(time.Millisecond)
	wait()
	if !recvReady(tp, clk.now()) {
		return fmt.Errorf("expired timer not reported ready")
	}
	t.Reset(time.Second)
	if recvReady(tp, clk.now()) {
		return fmt.Errorf("reset timer reported ready")
	}
	t.Stop()
	time.Sleep(2 * time.Second)
	if recvReady(tp, clk.now()) {
		return fmt.Errorf("stopped timer reported ready")
	}
	af := time.After(10 * time.Millisecond)
	time.Sleep(20 * time.Millisecond)
	wait()
	if !recvReady(chanPtrOf(af), clk.now()) {
		return fmt.Errorf("time.After channel not ready after expiry")
	}
	select {
	case <-af:
	default:
		return fmt.Errorf("time.After channel ready by introspection but not by select")
	}
	if recvReady(chanPtrOf(af), clk.now()) {
		return fmt.Errorf("drained timer channel still ready")
	}
	return nil
}
