// Package vsched is the controlled scheduler and stateless explorer (DESIGN.md §2.4, §2.5).
//
// One execution runs inside a testing/synctest bubble. Every instrumented goroutine parks at
// a gate before each synchronisation operation; the scheduler goroutine waits for quiescence
// (synctest.Wait), computes the enabled transitions from the parked operations and the state
// of the runtime channels they refer to, picks one (replayed prefix, then choice 0) and
// releases it. Bubble time only advances when the scheduler itself blocks (advance).
package vsched

import (
	"fmt"
	"hash/fnv"
	"runtime/debug"
	"sort"
	"strings"
	"sync"
	"sync/atomic"
	"testing"
	"testing/synctest"
	"time"
	"unsafe"

	shim "github.com/filecoin-project/go-jsonrpc/verifshim"
)

// G is a goroutine known to the scheduler.
type G struct {
	ID     string
	goid   int64
	wake   chan int
	op     *shim.Op
	nspawn int
	held   []unsafe.Pointer
	done   bool
	seq    int
	native bool // released to block natively on its operation
}

// Config parameterises one execution.
type Config struct {
	Horizon       time.Duration // virtual-time horizon (default 10s)
	MaxSteps      int           // scheduler step cap (default 200000)
	ExploreTimers bool          // offer "advance the clock now" as an alternative
	Trace         bool          // record the full transition trace
	// Desc reverses the canonical order of the enabled set (descending logical ids): a second
	// base schedule around which deviations are counted.
	Desc bool
	// LazyStart: a third base schedule in which a spawned goroutine starts only when nothing
	// else (except event actors) can run; with it, "the child had not started yet" costs no
	// deviation.
	LazyStart bool
	// FreeRun: library gates are pass-through and every enabled environment gate is released
	// at once, so goroutines really run concurrently (used by the separate -race guard pass;
	// not an exploration mode).
	FreeRun bool
}

// Point is one decision point of an execution.
type Point struct {
	N      int    // number of alternatives
	Choice int    // the one taken
	FP     string // fingerprint of the alternatives (divergence detection)
	H      uint64 // hash of FP
}

// Exec is the record of one execution.
type Exec struct {
	Prefix     []int
	Points     []Point
	Terminal   string // quiescent | horizon | stepcap | panic | diverged
	Steps      int
	Obs        string   // canonical observation record, written by the scenario
	Violations []string // oracle failures, written by the scenario
	Diverged   string
	Panic      string
	Trace      []string
	Leaked     []string // goroutines alive after teardown
	Sites      map[string]int
	VirtualEnd time.Duration
}

func (x *Exec) Choices() []int {
	c := make([]int, len(x.Points))
	for i, p := range x.Points {
		c[i] = p.Choice
	}
	return c
}

// Sched implements verifshim.Scheduler.
type Sched struct {
	cfg Config
	mu  sync.Mutex

	byGoid  map[int64]*G
	tokens  map[uint64]*G
	all     []*G
	owner   map[unsafe.Pointer]*G
	tokCtr  uint64
	anon    int
	adopted map[string]int

	wakeCh   chan struct{}
	draining atomic.Bool
	stopped  atomic.Bool
	begun    bool
	last     *G
	clk      clock
	start    time.Time
	past     bool

	prefix   []int
	prefixFP []uint64
	x        *Exec

	randVal float64

	// scenario hooks
	EnvEnabled func(name string) bool
	OnQuiesce  func() bool // called when nothing is enabled before advancing time; true = state changed
	OnStep     func()      // called at every quiescent point before the enabled set is computed
	Finish     func()      // oracle, evaluated at the terminal state
	Teardown   func()      // closes nets, cancels contexts
	stuck      chan struct{}
}

var _ shim.Scheduler = (*Sched)(nil)

func (s *Sched) cur() *G {
	id := shim.Goid()
	s.mu.Lock()
	g := s.byGoid[id]
	if g == nil {
		s.anon++
		g = &G{ID: fmt.Sprintf("~%d", s.anon), goid: id, wake: make(chan int, 1), seq: len(s.all)}
		s.byGoid[id] = g
		s.all = append(s.all, g)
	}
	s.mu.Unlock()
	return g
}

// Adopt names the calling goroutine (for goroutines created by uninstrumented code). A name
// that was used before (an HTTP connection goroutine serving its next request) gets a
// numbered successor, so logical ids - and the ids of the goroutines it spawns - stay unique.
func (s *Sched) Adopt(name string) {
	id := shim.Goid()
	s.mu.Lock()
	s.adopted[name]++
	if n := s.adopted[name]; n > 1 {
		name = fmt.Sprintf("%s#%d", name, n)
	}
	if g := s.byGoid[id]; g != nil {
		g.ID = name
		g.nspawn = 0
	} else {
		g = &G{ID: name, goid: id, wake: make(chan int, 1), seq: len(s.all)}
		s.byGoid[id] = g
		s.all = append(s.all, g)
	}
	s.mu.Unlock()
}

// Release marks the calling (adopted) goroutine as finished.
func (s *Sched) Release() { s.Exit() }

func (s *Sched) Gate(op *shim.Op) int {
	if s.draining.Load() {
		return -1
	}
	if s.cfg.FreeRun && op.Kind != shim.OpEnv {
		return -1
	}
	g := s.cur()
	s.mu.Lock()
	g.op = op
	g.native = false
	s.mu.Unlock()
	select {
	case s.wakeCh <- struct{}{}:
	default:
	}
	return <-g.wake
}

func (s *Sched) Spawn() uint64 {
	p := s.cur()
	s.mu.Lock()
	p.nspawn++
	s.tokCtr++
	tok := s.tokCtr
	g := &G{ID: fmt.Sprintf("%s.%d", p.ID, p.nspawn), wake: make(chan int, 1), seq: len(s.all)}
	s.tokens[tok] = g
	s.all = append(s.all, g)
	s.mu.Unlock()
	return tok
}

func (s *Sched) Enter(tok uint64) {
	id := shim.Goid()
	s.mu.Lock()
	if g := s.tokens[tok]; g != nil {
		delete(s.tokens, tok)
		g.goid = id
		s.byGoid[id] = g
	}
	s.mu.Unlock()
}

func (s *Sched) Exit() {
	id := shim.Goid()
	s.mu.Lock()
	if g := s.byGoid[id]; g != nil {
		g.done = true
		delete(s.byGoid, id)
	}
	s.mu.Unlock()
}

// Panicked is called by the shim when a library goroutine panicked.
func (s *Sched) Panicked(r interface{}, stack []byte) {
	s.mu.Lock()
	if s.x.Panic == "" {
		s.x.Panic = fmt.Sprintf("%v\n%s", r, stack)
	}
	s.mu.Unlock()
	select {
	case s.wakeCh <- struct{}{}:
	default:
	}
}

func (s *Sched) Locked(m unsafe.Pointer) {
	s.mu.Lock()
	if s.owner[m] != nil { // already recorded when the lock gate was released
		s.mu.Unlock()
		return
	}
	s.mu.Unlock()
	g := s.cur() // TryLock, or a lock taken while draining
	s.mu.Lock()
	s.owner[m] = g
	g.held = append(g.held, m)
	s.mu.Unlock()
}

func (s *Sched) Unlocked(m unsafe.Pointer) {
	s.mu.Lock()
	if g := s.owner[m]; g != nil {
		for i, h := range g.held {
			if h == m {
				g.held = append(g.held[:i], g.held[i+1:]...)
				break
			}
		}
	}
	delete(s.owner, m)
	s.mu.Unlock()
}

// Stuck blocks the caller durably forever (used when a lock cannot be had while draining).
func (s *Sched) Stuck() { <-s.stuck }

func (s *Sched) Draining() bool { return s.draining.Load() }

func (s *Sched) Rand() float64 { return s.randVal }

// Held returns the mutexes held by the calling goroutine (lockset oracle).
func (s *Sched) Held() []unsafe.Pointer {
	g := s.cur()
	s.mu.Lock()
	defer s.mu.Unlock()
	return append([]unsafe.Pointer(nil), g.held...)
}

// AllHeld returns every mutex currently held by any goroutine.
func (s *Sched) AllHeld() []unsafe.Pointer {
	s.mu.Lock()
	defer s.mu.Unlock()
	out := make([]unsafe.Pointer, 0, len(s.owner))
	for m := range s.owner {
		out = append(out, m)
	}
	return out
}

// CurID returns the logical id of the calling goroutine.
func (s *Sched) CurID() string { return s.cur().ID }

// Go starts a named harness goroutine.
func (s *Sched) Go(name string, fn func()) {
	s.mu.Lock()
	g := &G{ID: name, wake: make(chan int, 1), seq: len(s.all)}
	s.all = append(s.all, g)
	s.mu.Unlock()
	go func() {
		id := shim.Goid()
		s.mu.Lock()
		g.goid = id
		s.byGoid[id] = g
		s.mu.Unlock()
		defer func() {
			if r := recover(); r != nil {
				s.Panicked(r, debug.Stack())
			}
			s.Exit()
		}()
		// an actor's first step is a schedule point, so that the order in which actors start
		// is the explorer's choice and never the Go runtime's
		s.Gate(&shim.Op{Kind: shim.OpYield, Name: "start", Site: "start:" + name})
		fn()
	}()
}

// Env parks the caller at a named environment gate.
func (s *Sched) Env(name string) {
	s.Gate(&shim.Op{Kind: shim.OpEnv, Name: name, Site: "env:" + name})
}

// Yield is a pure schedule point in harness code.
func (s *Sched) Yield(name string) {
	s.Gate(&shim.Op{Kind: shim.OpYield, Name: name, Site: "yield:" + name})
}

// SetRand sets the value returned for the library's math/rand.Float64 calls (backoff jitter).
func (s *Sched) SetRand(v float64) { s.randVal = v }

// Stop ends the execution at the next quiescent point (the scenario has seen all it needs).
func (s *Sched) Stop() { s.stopped.Store(true) }

// Begin marks the start of the explored part of the execution.
func (s *Sched) Begin() { s.begun = true }

// Now is the virtual time elapsed since the start of the execution.
func (s *Sched) Now() time.Duration { return time.Since(s.start) }

// Violate records an oracle failure.
func (s *Sched) Violate(format string, args ...interface{}) {
	s.mu.Lock()
	s.x.Violations = append(s.x.Violations, fmt.Sprintf(format, args...))
	s.mu.Unlock()
}

// SetObs sets the canonical observation record.
func (s *Sched) SetObs(o string) { s.x.Obs = o }

// Alive lists goroutines that have not finished, with what they are doing.
func (s *Sched) Alive() []string {
	s.mu.Lock()
	defer s.mu.Unlock()
	var out []string
	for _, g := range s.all {
		if g.done || g.goid == 0 {
			continue
		}
		st := "running-or-blocked"
		if g.op != nil {
			st = "parked@" + g.op.Site + "/" + g.op.Kind.String()
		} else if g.native {
			st = "blocked-native"
		}
		out = append(out, g.ID+":"+st)
	}
	sort.Strings(out)
	return out
}

type trans struct {
	g    *G
	k    int // value handed to the gate: case index, -2 default, -1 n/a
	peer *G  // rendezvous partner, released first (it blocks natively, restricted to case pk)
	pk   int
	desc string
}

// chanEnd is one parked channel operation that is not ready on its own.
type chanEnd struct {
	g          *G
	k          int // case index to hand to the gate (-1 for a plain statement)
	send       bool
	ch         unsafe.Pointer
	hasDefault bool
	blocked    bool // the goroutine has no natively ready case and no default: it is waiting
}

// enabled computes the enabled transitions from the parked operations.
//
// A parked operation is enabled when it can complete against the native state of its
// channel (buffer space/content, closed, a natively blocked peer, an expired timer), or
// when another goroutine is parked at the complementary operation on the same channel
// (rendezvous: one transition per sender/receiver pair). A goroutine parked at an
// operation that cannot complete simply stays parked - parking *is* blocking - and is
// re-evaluated at every step. wakeAt is the earliest expiry of a timer channel some parked
// operation is waiting for.
func (s *Sched) enabled() (en []trans, wakeAt int64) {
	s.mu.Lock()
	defer s.mu.Unlock()
	var parked []*G
	for _, g := range s.all {
		if g.op != nil && !g.done {
			parked = append(parked, g)
		}
	}
	isStart := func(g *G) bool { return g.op.Kind == shim.OpYield && g.op.Name == "go" }
	// Canonical order of the enabled set = (class, id). Classes:
	//   0  start gate of a freshly spawned goroutine (default base schedule): by default a child
	//      starts at once, as it did before goroutine starts became schedule points, and
	//      *delaying* its start is the deviation - so every schedule reachable without start
	//      gates stays reachable with the same number of deviations;
	//   1  the goroutine that ran last;  2  every other goroutine;
	//   3  start gates under the LazyStart base schedule (children start when nothing else can run);
	//   4  event actors ("z..."), which fire at quiescence unless a deviation places them earlier.
	class := func(g *G) int {
		switch {
		case isStart(g) && !s.cfg.LazyStart:
			return 0
		case strings.HasPrefix(g.ID, "z"):
			return 4
		case isStart(g):
			return 3
		case g == s.last:
			return 1
		}
		return 2
	}
	sort.Slice(parked, func(i, j int) bool {
		ci, cj := class(parked[i]), class(parked[j])
		if ci != cj {
			return ci < cj
		}
		if s.cfg.Desc && ci != 4 {
			return parked[i].ID > parked[j].ID
		}
		return parked[i].ID < parked[j].ID
	})
	now := s.clk.now()
	noteTimer := func(p unsafe.Pointer) {
		if p == nil {
			return
		}
		c := (*hchan)(p)
		if c.timer != nil {
			if w := (*rtimer)(c.timer).when; w > now && (wakeAt == 0 || w < wakeAt) {
				wakeAt = w
			}
		}
	}
	var ends []chanEnd
	type pending struct {
		g   *G
		def bool
	}
	var defaults []pending
	for _, g := range parked {
		op := g.op
		switch op.Kind {
		case shim.OpLock, shim.OpRLock:
			if s.owner[op.Obj] == nil {
				en = append(en, trans{g: g, k: -1, desc: g.ID + " lock " + op.Site})
			}
		case shim.OpSend:
			if sendReady(op.Obj) {
				en = append(en, trans{g: g, k: -1, desc: g.ID + " send " + op.Site})
			} else if op.Obj != nil {
				ends = append(ends, chanEnd{g: g, k: -1, send: true, ch: op.Obj, blocked: true})
			}
		case shim.OpRecv:
			if recvReady(op.Obj, now) {
				en = append(en, trans{g: g, k: -1, desc: g.ID + " recv " + op.Site})
			} else if op.Obj != nil {
				noteTimer(op.Obj)
				ends = append(ends, chanEnd{g: g, k: -1, ch: op.Obj, blocked: true})
			}
		case shim.OpClose:
			en = append(en, trans{g: g, k: -1, desc: g.ID + " close " + op.Site})
		case shim.OpYield:
			en = append(en, trans{g: g, k: -1, desc: g.ID + " yield " + op.Site})
		case shim.OpEnv:
			ok := true
			if s.EnvEnabled != nil {
				// the predicate may call back into the scheduler (Alive, ...): nothing else runs
				// at a quiescent point, so dropping the lock here is safe
				s.mu.Unlock()
				ok = s.EnvEnabled(op.Name)
				s.mu.Lock()
			}
			if ok {
				en = append(en, trans{g: g, k: -1, desc: g.ID + " env " + op.Name})
			}
		case shim.OpSelect:
			any := false
			for i, c := range op.Cases {
				ok := false
				if c.Send {
					ok = sendReady(c.Ch)
				} else {
					ok = recvReady(c.Ch, now)
				}
				if ok {
					any = true
					en = append(en, trans{g: g, k: i, desc: fmt.Sprintf("%s select %s case %d", g.ID, op.Site, i)})
				}
			}
			for i, c := range op.Cases {
				if c.Ch == nil {
					continue
				}
				if !c.Send {
					noteTimer(c.Ch)
				}
				ends = append(ends, chanEnd{g: g, k: i, send: c.Send, ch: c.Ch, hasDefault: op.HasDefault, blocked: !any && !op.HasDefault})
			}
			if !any && op.HasDefault {
				defaults = append(defaults, pending{g: g, def: true})
			}
		}
	}
	// rendezvous between parked operations
	paired := map[*G]bool{}
	for _, a := range ends {
		if !a.send {
			continue
		}
		for _, b := range ends {
			if b.send || b.ch != a.ch || b.g == a.g {
				continue
			}
			// a non-blocking select only completes against a peer that is really waiting
			if a.hasDefault && !b.blocked {
				continue
			}
			if b.hasDefault && !a.blocked {
				continue
			}
			if a.hasDefault && b.hasDefault {
				continue
			}
			if sendReady(a.ch) || recvReady(a.ch, now) {
				continue // already listed as natively ready
			}
			paired[a.g], paired[b.g] = true, true
			t := trans{g: a.g, k: a.k, peer: b.g, pk: b.k,
				desc: fmt.Sprintf("%s send %s -> %s recv %s", a.g.ID, a.g.op.Site, b.g.ID, b.g.op.Site)}
			if b.hasDefault {
				// the waiting side must block first: here that is the sender
				t = trans{g: b.g, k: b.k, peer: a.g, pk: a.k, desc: t.desc}
			}
			en = append(en, t)
		}
	}
	for _, d := range defaults {
		if !paired[d.g] || true {
			// the default clause is taken when nothing is ready at the moment of the select;
			// a possible rendezvous with a waiting peer is listed above as an alternative
			en = append(en, trans{g: d.g, k: -2, desc: d.g.ID + " select " + d.g.op.Site + " default"})
		}
	}
	// keep the canonical order: by goroutine rank, stable
	rank := map[*G]int{}
	for i, g := range parked {
		rank[g] = i
	}
	sort.SliceStable(en, func(i, j int) bool { return rank[en[i].g] < rank[en[j].g] })
	return
}

func (s *Sched) release(g *G, k int) {
	s.mu.Lock()
	if op := g.op; op != nil && (op.Kind == shim.OpLock || op.Kind == shim.OpRLock) && !s.draining.Load() {
		// the goroutine is about to take the (free) mutex: record the owner here, which saves
		// it a goroutine-id lookup
		s.owner[op.Obj] = g
		g.held = append(g.held, op.Obj)
	}
	g.op = nil
	s.mu.Unlock()
	g.wake <- k
}

func (s *Sched) advance(wakeAt int64) bool {
	left := s.cfg.Horizon - time.Since(s.start)
	if left <= 0 {
		s.past = true
		return false
	}
	horizon := true
	if wakeAt != 0 {
		if d := time.Duration(wakeAt - s.clk.now()); d < left {
			left = d
			horizon = false
			if left <= 0 {
				return true
			}
		}
	}
	select {
	case <-s.wakeCh:
	default:
	}
	t := time.NewTimer(left)
	select {
	case <-s.wakeCh:
		t.Stop()
		return true
	case <-t.C:
		if horizon {
			s.past = true
			return false
		}
		return true
	}
}

func (s *Sched) choose(en []trans) int {
	n := len(en)
	timerAlt := s.cfg.ExploreTimers && !s.past
	if timerAlt {
		n++
	}
	if !s.begun || n < 2 {
		return 0
	}
	i := len(s.x.Points)
	var sb strings.Builder
	for _, t := range en {
		sb.WriteString(t.desc)
		sb.WriteByte(';')
	}
	fp := sb.String()
	c := 0
	if i < len(s.prefix) {
		c = s.prefix[i]
		if c >= n {
			s.x.Diverged = fmt.Sprintf("point %d: prefix wants alternative %d of %d (%s)", i, c, n, fp)
			c = 0
		}
	}
	hh := fnv.New64a()
	hh.Write([]byte(fp))
	h := hh.Sum64()
	if i < len(s.prefix) && i < len(s.prefixFP) && s.prefixFP[i] != 0 && s.prefixFP[i] != h && s.x.Diverged == "" {
		s.x.Diverged = fmt.Sprintf("point %d: the alternatives differ from those seen when this prefix was first executed; now %s", i, fp)
	}
	s.x.Points = append(s.x.Points, Point{N: n, Choice: c, FP: fp, H: h})
	return c
}

func (s *Sched) loop() {
	maxSteps := s.cfg.MaxSteps
	for {
		synctest.Wait()
		if s.x.Panic != "" {
			s.x.Terminal = "panic"
			return
		}
		if s.x.Diverged != "" {
			s.x.Terminal = "diverged"
			return
		}
		if s.stopped.Load() {
			s.x.Terminal = "stopped"
			return
		}
		s.x.Steps++
		if s.x.Steps > maxSteps {
			s.x.Terminal = "stepcap"
			return
		}
		if s.OnStep != nil {
			s.OnStep()
		}
		en, wakeAt := s.enabled()
		if len(en) == 0 {
			if s.OnQuiesce != nil && s.OnQuiesce() {
				continue
			}
			if s.past {
				s.x.Terminal = "horizon"
				return
			}
			s.advance(wakeAt)
			continue
		}
		if s.cfg.FreeRun {
			for _, tr := range en {
				s.release(tr.g, tr.k)
			}
			continue
		}
		idx := s.choose(en)
		if idx == len(en) { // early timer
			if s.cfg.Trace {
				s.x.Trace = append(s.x.Trace, fmt.Sprintf("@%v advance-clock", s.Now()))
			}
			s.advance(wakeAt)
			continue
		}
		tr := en[idx]
		s.last = tr.g
		if s.cfg.Trace {
			s.x.Trace = append(s.x.Trace, fmt.Sprintf("@%v %s", s.Now(), tr.desc))
		}
		if s.begun {
			s.x.Sites[tr.g.op.Site]++
		}
		if tr.peer != nil {
			// rendezvous: the receiver blocks natively on just this channel, then the sender
			// completes against it
			s.release(tr.peer, tr.pk)
			synctest.Wait()
		}
		s.release(tr.g, tr.k)
	}
}

func (s *Sched) drain() {
	s.draining.Store(true)
	if s.Teardown != nil {
		s.Teardown()
	}
	for round := 0; round < 50; round++ {
		s.mu.Lock()
		var parked []*G
		for _, g := range s.all {
			if g.op != nil && !g.done {
				parked = append(parked, g)
			}
		}
		s.mu.Unlock()
		for _, g := range parked {
			s.release(g, -1)
		}
		synctest.Wait()
		if len(parked) == 0 {
			// let timers (sleeping reconnect loops, deadlines) run out
			time.Sleep(time.Minute)
			synctest.Wait()
			s.mu.Lock()
			n := 0
			for _, g := range s.all {
				if g.op != nil && !g.done {
					n++
				}
			}
			s.mu.Unlock()
			if n == 0 {
				break
			}
		}
	}
	s.x.Leaked = s.Alive()
}

// leakErr is the panic value synctest raises when goroutines are left blocked in a bubble.
const leakMsg = "blocked goroutines remain"

// RunOnce performs one execution of body under the schedule given by prefix.
func RunOnce(t *testing.T, cfg Config, prefix []int, prefixFP []uint64, body func(s *Sched)) (x *Exec) {
	if cfg.Horizon == 0 {
		cfg.Horizon = 10 * time.Second
	}
	if cfg.MaxSteps == 0 {
		cfg.MaxSteps = 200000
	}
	x = &Exec{Prefix: prefix, Sites: map[string]int{}}
	defer func() {
		shim.Sched = nil
		if r := recover(); r != nil {
			msg := fmt.Sprint(r)
			if strings.Contains(msg, leakMsg) {
				return // goroutines of this execution stay parked for ever; recorded in x.Leaked
			}
			panic(r)
		}
	}()
	synctest.Test(t, func(t *testing.T) {
		s := &Sched{
			cfg: cfg, byGoid: map[int64]*G{}, tokens: map[uint64]*G{}, owner: map[unsafe.Pointer]*G{}, adopted: map[string]int{},
			wakeCh: make(chan struct{}, 1), prefix: prefix, prefixFP: prefixFP, x: x, stuck: make(chan struct{}),
		}
		s.clk = calibrate()
		s.start = time.Now()
		shim.Sched = s
		s.Go("main", func() { body(s) })
		s.loop()
		x.VirtualEnd = s.Now()
		if s.Finish != nil && x.Terminal != "diverged" {
			s.Finish()
		}
		s.drain()
	})
	return x
}
