package vsched

import (
	"fmt"
	"sort"
	"time"
)

// Explorer enumerates, depth first and without state storage, every schedule of a scenario
// that differs from the default schedule in at most Bound decision points (a "deviation":
// taking an alternative other than number 0 at a point where several transitions are
// enabled). Executions always run to a terminal state.
type Explorer struct {
	Bound    int
	Shard    int // this process explores the level-1 subtrees with index % NShards == Shard
	NShards  int
	Deadline time.Time // zero = none
	MaxExecs int       // zero = none
	Run      func(prefix []int, hs []uint64) *Exec
	OnExec   func(x *Exec) bool // returns false to stop (e.g. after a violation)

	Stats Stats
}

// Stats is what an exploration reports.
type Stats struct {
	Executions      int            `json:"executions"`
	Transitions     int            `json:"transitions"`
	DecisionNodes   int            `json:"decision_nodes"`
	BoundCompleted  int            `json:"bound_completed"`
	Capped          string         `json:"capped,omitempty"`
	ByDeviations    map[int]int    `json:"executions_by_deviations"`
	Terminals       map[string]int `json:"terminals"`
	DistinctObs     map[string]int `json:"-"`
	MaxPoints       int            `json:"max_decision_points"`
	Sites           map[string]int `json:"gate_sites"`
	Divergences     int            `json:"divergences"`
	Leaks           int            `json:"executions_with_leaked_goroutines"`
	SampleSchedules [][]int        `json:"-"`
}

func devs(c []int) int {
	n := 0
	for _, v := range c {
		if v != 0 {
			n++
		}
	}
	return n
}

func (e *Explorer) record(x *Exec) bool {
	st := &e.Stats
	st.Executions++
	st.Transitions += x.Steps
	st.DecisionNodes += len(x.Points)
	if len(x.Points) > st.MaxPoints {
		st.MaxPoints = len(x.Points)
	}
	st.ByDeviations[devs(x.Prefix)]++
	st.Terminals[x.Terminal]++
	st.DistinctObs[x.Obs]++
	for k, v := range x.Sites {
		st.Sites[k] += v
	}
	if x.Diverged != "" {
		st.Divergences++
	}
	if len(x.Leaked) > 0 {
		st.Leaks++
	}
	if len(st.SampleSchedules) < 5 && len(x.Prefix) > 0 {
		st.SampleSchedules = append(st.SampleSchedules, append([]int(nil), x.Prefix...))
	}
	if e.OnExec != nil {
		return e.OnExec(x)
	}
	return true
}

func (e *Explorer) over() bool {
	if e.MaxExecs > 0 && e.Stats.Executions >= e.MaxExecs {
		e.Stats.Capped = fmt.Sprintf("execution cap %d", e.MaxExecs)
		return true
	}
	if !e.Deadline.IsZero() && time.Now().After(e.Deadline) {
		e.Stats.Capped = "time budget"
		return true
	}
	return false
}

// lvlNode is an executed schedule kept so that its children (one more deviation) can be run.
type lvlNode struct {
	choices []uint8
	ns      []uint8
	hs      []uint64
	from    int // first decision point at which a child may deviate
}

func nodeOf(x *Exec, from int) *lvlNode {
	nd := &lvlNode{from: from, choices: make([]uint8, len(x.Points)), ns: make([]uint8, len(x.Points)), hs: make([]uint64, len(x.Points))}
	for i, p := range x.Points {
		nd.choices[i], nd.ns[i], nd.hs[i] = uint8(p.Choice), uint8(p.N), p.H
	}
	return nd
}

// Explore runs the search level by level: all schedules with one deviation, then all with
// two, ... up to Bound. A run that hits its budget has therefore completed every level
// below the one it stopped in, and says so (Stats.BoundCompleted). It returns false if OnExec
// asked to stop.
func (e *Explorer) Explore() bool {
	if e.NShards == 0 {
		e.NShards = 1
	}
	e.Stats = Stats{ByDeviations: map[int]int{}, Terminals: map[string]int{}, DistinctObs: map[string]int{}, Sites: map[string]int{}}
	root := e.Run(nil, nil)
	if e.Shard == 0 {
		if !e.record(root) {
			return false
		}
	}
	cur := []*lvlNode{nodeOf(root, 0)}
	k := 0
	for level := 1; level <= e.Bound; level++ {
		var next []*lvlNode
		for _, nd := range cur {
			for i := nd.from; i < len(nd.choices); i++ {
				for alt := 1; alt < int(nd.ns[i]); alt++ {
					if level == 1 {
						mine := k%e.NShards == e.Shard
						k++
						if !mine {
							continue
						}
					}
					if e.over() {
						return true
					}
					prefix := make([]int, i+1)
					for j := 0; j < i; j++ {
						prefix[j] = int(nd.choices[j])
					}
					prefix[i] = alt
					x := e.Run(prefix, nd.hs[:i+1])
					if !e.record(x) {
						return false
					}
					if level < e.Bound && x.Diverged == "" && len(x.Points) < 250 {
						next = append(next, nodeOf(x, i+1))
					}
				}
			}
		}
		e.Stats.BoundCompleted = level
		cur = next
	}
	return true
}

// TopObs returns the distinct observation records ordered by frequency.
func (st *Stats) TopObs(n int) []string {
	type kv struct {
		k string
		v int
	}
	var l []kv
	for k, v := range st.DistinctObs {
		l = append(l, kv{k, v})
	}
	sort.Slice(l, func(i, j int) bool {
		if l[i].v != l[j].v {
			return l[i].v > l[j].v
		}
		return l[i].k < l[j].k
	})
	var out []string
	for i := 0; i < len(l) && i < n; i++ {
		out = append(out, fmt.Sprintf("%d× %s", l[i].v, l[i].k))
	}
	return out
}
