// C11 — handler errors arrive intact; registered error types round-trip by code.
// Bounded-exhaustive product of error species x registration tables x messages x handler
// outcomes x method shapes x transports against a table-lookup reference model
// (DESIGN.md §3 C11).
package c11

import (
	"bytes"
	"context"
	"encoding/json"
	"errors"
	"fmt"
	"io"
	"net/http/httptest"
	"os"
	"os/exec"
	"path/filepath"
	"reflect"
	"strings"
	"testing"
	"unicode/utf8"

	jsonrpc "github.com/filecoin-project/go-jsonrpc"

	"verifharness/seqx/rep"
)

// ---------------------------------------------------------------- error species

// EV: plain type, value receiver, returned and registered in value form.
type EV struct{ M string }

func (e EV) Error() string { return e.M }

// EP: plain type, pointer receiver, returned and registered in pointer form.
type EP struct{ M string }

func (e *EP) Error() string { return e.M }

type emWire struct {
	A int    `json:"a"`
	B string `json:"b"`
}

// EM: marshalable (MarshalJSON/UnmarshalJSON pair on the pointer).
type EM struct {
	A int
	B string
}

func (e *EM) Error() string                { return e.B }
func (e *EM) MarshalJSON() ([]byte, error) { return json.Marshal(emWire{e.A, e.B}) }
func (e *EM) UnmarshalJSON(b []byte) error {
	var w emWire
	if err := json.Unmarshal(b, &w); err != nil {
		return err
	}
	e.A, e.B = w.A, w.B
	return nil
}

// EMF: marshalable whose UnmarshalJSON always fails.
type EMF struct {
	A int
	B string
}

func (e *EMF) Error() string                { return e.B }
func (e *EMF) MarshalJSON() ([]byte, error) { return json.Marshal(emWire{e.A, e.B}) }
func (e *EMF) UnmarshalJSON(b []byte) error { return errors.New("EMF: refusing to unmarshal") }

// EC: codec supplying its own code, message and Data.
type EC struct {
	Code jsonrpc.ErrorCode
	Msg  string
	S    string
	N    int
}

func (e *EC) Error() string { return e.Msg }
func (e *EC) ToJSONRPCError() (jsonrpc.JSONRPCError, error) {
	return jsonrpc.JSONRPCError{Code: e.Code, Message: e.Msg, Data: map[string]interface{}{"s": e.S, "n": e.N}}, nil
}
func (e *EC) FromJSONRPCError(j jsonrpc.JSONRPCError) error {
	m, ok := j.Data.(map[string]interface{})
	if !ok {
		return fmt.Errorf("EC: data is %T", j.Data)
	}
	s, ok1 := m["s"].(string)
	n, ok2 := m["n"].(float64)
	if !ok1 || !ok2 {
		return fmt.Errorf("EC: bad data %v", m)
	}
	e.Code, e.Msg, e.S, e.N = j.Code, j.Message, s, int(n)
	return nil
}

// ECF: codec whose FromJSONRPCError always fails.
type ECF struct {
	Code jsonrpc.ErrorCode
	Msg  string
}

func (e *ECF) Error() string { return e.Msg }
func (e *ECF) ToJSONRPCError() (jsonrpc.JSONRPCError, error) {
	return jsonrpc.JSONRPCError{Code: e.Code, Message: e.Msg, Data: "ecf"}, nil
}
func (e *ECF) FromJSONRPCError(j jsonrpc.JSONRPCError) error {
	return errors.New("ECF: refusing to convert")
}

// ECFV: like ECF, but the CLIENT registers it in value form (Register(code, new(ECFV))); the
// handler returns the pointer form so that the server sees a codec and sends the codec's code.
type ECFV struct {
	Code jsonrpc.ErrorCode
	Msg  string
}

func (e ECFV) Error() string { return e.Msg }
func (e ECFV) ToJSONRPCError() (jsonrpc.JSONRPCError, error) {
	return jsonrpc.JSONRPCError{Code: e.Code, Message: e.Msg, Data: "ecfv"}, nil
}
func (e *ECFV) FromJSONRPCError(j jsonrpc.JSONRPCError) error {
	return errors.New("ECFV: refusing to convert")
}

// EMFV: like EMF, but the CLIENT registers it in value form; the handler returns the pointer
// form (registered in pointer form on the server), so the server attaches non-empty meta and
// the client really calls the failing UnmarshalJSON.
type EMFV struct {
	A int
	B string
}

func (e EMFV) Error() string                 { return e.B }
func (e EMFV) MarshalJSON() ([]byte, error)  { return json.Marshal(emWire{e.A, e.B}) }
func (e *EMFV) UnmarshalJSON(b []byte) error { return errors.New("EMFV: refusing to unmarshal") }

// ECT: codec whose server-side conversion (ToJSONRPCError) fails; FromJSONRPCError works.
type ECT struct {
	Code jsonrpc.ErrorCode
	Msg  string
}

func (e *ECT) Error() string { return e.Msg }
func (e *ECT) ToJSONRPCError() (jsonrpc.JSONRPCError, error) {
	return jsonrpc.JSONRPCError{}, errors.New("ECT: refusing to convert")
}
func (e *ECT) FromJSONRPCError(j jsonrpc.JSONRPCError) error {
	e.Code, e.Msg = j.Code, j.Message
	return nil
}

// EMT: marshalable whose server-side MarshalJSON fails; UnmarshalJSON works.
type EMT struct {
	A int
	B string
}

func (e *EMT) Error() string                { return e.B }
func (e *EMT) MarshalJSON() ([]byte, error) { return nil, errors.New("EMT: refusing to marshal") }
func (e *EMT) UnmarshalJSON(b []byte) error {
	var w emWire
	if err := json.Unmarshal(b, &w); err != nil {
		return err
	}
	e.A, e.B = w.A, w.B
	return nil
}

// EB: one plain struct whose value form and pointer form both implement error; the value form
// is registered under one code and the pointer form under another.
type EB struct{ M string }

func (e EB) Error() string { return e.M }

// EVM: probe only (see report key "uncertain_..."): a type returned and registered in VALUE
// form whose marshalling pair is split the only way Go allows (MarshalJSON on the value,
// UnmarshalJSON on the pointer).
type EVM struct {
	A int
	B string
}

func (e EVM) Error() string                { return e.B }
func (e EVM) MarshalJSON() ([]byte, error) { return json.Marshal(emWire{e.A, e.B}) }
func (e *EVM) UnmarshalJSON(b []byte) error {
	var w emWire
	if err := json.Unmarshal(b, &w); err != nil {
		return err
	}
	e.A, e.B = w.A, w.B
	return nil
}

type kind int

const (
	kPlain           kind = iota
	kMarsh                // marshalable pair, both directions work
	kMarshFail            // client-side UnmarshalJSON always fails
	kCodec                // codec, both directions work
	kCodecFail            // client-side FromJSONRPCError always fails
	kMarshToFail          // server-side MarshalJSON always fails
	kCodecToFail          // server-side ToJSONRPCError always fails
	kProbeValueMarsh      // observation only
)

type species struct {
	name string
	kind kind
	mk   func(code jsonrpc.ErrorCode, msg string) error // what the handler returns; also the test's "original"
	reg  interface{}                                    // Register argument on the server: the form the handler returns
	regC interface{}                                    // Register argument on the client (nil: same as reg)
	typ  reflect.Type                                   // dynamic type the handler returns
	// noReg: the dynamic type is registered nowhere, in any table (it is only a relative of a
	// registered type), so it must always arrive as the generic error with code 1
	noReg bool
	idx   int
}

// make builds the error the handler returns for message m (codec species carry their own code:
// always the canonical server-side code of the species).
func (s species) make(m string) error { return s.mk(sCode(s.idx), m) }

func (s species) clientReg() interface{} {
	if s.regC != nil {
		return s.regC
	}
	return s.reg
}

func sCode(i int) jsonrpc.ErrorCode { return jsonrpc.ErrorCode(jsonrpc.FirstUserCode + i) }
func cCode(i int) jsonrpc.ErrorCode { return jsonrpc.ErrorCode(jsonrpc.FirstUserCode + 100 + i) }

var errorStringT = reflect.TypeOf(errors.New(""))

var speciesList []species

func init() {
	type ec = jsonrpc.ErrorCode
	// The order also fixes the cross-species table (the client registers the code of species i
	// to species i+1), so failing-conversion species follow a species whose wire form makes the
	// client attempt the conversion (marshalable ones follow a species that sends meta).
	speciesList = []species{
		{name: "errors.New", kind: kPlain, mk: func(_ ec, m string) error { return errors.New(m) }, reg: reflect.New(errorStringT).Interface(), typ: errorStringT},
		{name: "EV(value)", kind: kPlain, mk: func(_ ec, m string) error { return EV{m} }, reg: new(EV), typ: reflect.TypeOf(EV{})},
		// *EV is NOT registered anywhere; only its value form EV is (by the species above)
		{name: "&EV(pointer-to-value-registered)", kind: kPlain, mk: func(_ ec, m string) error { return &EV{m} }, typ: reflect.TypeOf(&EV{}), noReg: true},
		{name: "*EP(pointer)", kind: kPlain, mk: func(_ ec, m string) error { return &EP{m} }, reg: new(*EP), typ: reflect.TypeOf(&EP{})},
		{name: "*EM(marshalable)", kind: kMarsh, mk: func(_ ec, m string) error { return &EM{A: len(m) - 1, B: m} }, reg: new(*EM), typ: reflect.TypeOf(&EM{})},
		{name: "EMFV(value-form,unmarshal-fails)", kind: kMarshFail, mk: func(_ ec, m string) error { return &EMFV{A: len(m) - 1, B: m} }, reg: new(*EMFV), regC: new(EMFV), typ: reflect.TypeOf(&EMFV{})},
		{name: "*EMF(unmarshal-fails)", kind: kMarshFail, mk: func(_ ec, m string) error { return &EMF{A: len(m) - 1, B: m} }, reg: new(*EMF), typ: reflect.TypeOf(&EMF{})},
		{name: "*EC(codec)", kind: kCodec, mk: func(c ec, m string) error { return &EC{Code: c, Msg: m, S: "d:" + m, N: len(m) - 1} }, reg: new(*EC), typ: reflect.TypeOf(&EC{})},
		{name: "ECFV(value-form,codec-from-fails)", kind: kCodecFail, mk: func(c ec, m string) error { return &ECFV{Code: c, Msg: m} }, reg: new(*ECFV), regC: new(ECFV), typ: reflect.TypeOf(&ECFV{})},
		{name: "*ECF(codec-from-fails)", kind: kCodecFail, mk: func(c ec, m string) error { return &ECF{Code: c, Msg: m} }, reg: new(*ECF), typ: reflect.TypeOf(&ECF{})},
		{name: "*EMT(marshal-fails)", kind: kMarshToFail, mk: func(_ ec, m string) error { return &EMT{A: len(m) - 1, B: m} }, reg: new(*EMT), typ: reflect.TypeOf(&EMT{})},
		{name: "*ECT(codec-to-fails)", kind: kCodecToFail, mk: func(c ec, m string) error { return &ECT{Code: c, Msg: m} }, reg: new(*ECT), typ: reflect.TypeOf(&ECT{})},
		{name: "EB(value-form)", kind: kPlain, mk: func(_ ec, m string) error { return EB{m} }, reg: new(EB), typ: reflect.TypeOf(EB{})},
		{name: "*EB(pointer-form)", kind: kPlain, mk: func(_ ec, m string) error { return &EB{m} }, reg: new(*EB), typ: reflect.TypeOf(&EB{})},
		{name: "EVM(value-marshalable,probe)", kind: kProbeValueMarsh, mk: func(_ ec, m string) error { return EVM{A: len(m) - 1, B: m} }, reg: new(EVM), typ: reflect.TypeOf(EVM{})},
	}
	for i := range speciesList {
		speciesList[i].idx = i
	}
}

// suppliesOwnCode: the wire code is the one the codec's (succeeding) ToJSONRPCError supplies.
func suppliesOwnCode(k kind) bool { return k == kCodec || k == kCodecFail }

// sendsMeta: the server attaches non-empty meta, so a marshalable client type is asked to
// unmarshal it.
func sendsMeta(k kind) bool { return k == kMarsh || k == kMarshFail }

// ---------------------------------------------------------------- registration tables

type table struct {
	name   string
	server map[int]jsonrpc.ErrorCode // species index -> code (nil: no WithServerErrors at all)
	client map[jsonrpc.ErrorCode]int // code -> species index (nil: no WithErrors at all)
}

func tables() []table {
	n := len(speciesList)
	srvAll := map[int]jsonrpc.ErrorCode{}
	same := map[jsonrpc.ErrorCode]int{}
	disj := map[jsonrpc.ErrorCode]int{}
	cross := map[jsonrpc.ErrorCode]int{}
	var regd []int // species that have a registration of their own
	for i := 0; i < n; i++ {
		if !speciesList[i].noReg {
			regd = append(regd, i)
		}
	}
	for k, i := range regd {
		srvAll[i] = sCode(i)
		same[sCode(i)] = i
		disj[cCode(i)] = i
		cross[sCode(i)] = regd[(k+1)%len(regd)]
	}
	// every type under two codes on the client (say an old and a new server generation): the code
	// the server uses is the one registered first, the other one is registered after it
	multi := map[jsonrpc.ErrorCode]int{}
	for _, i := range regd {
		multi[sCode(i)] = i
		multi[cCode(i)] = i
	}
	return []table{
		{"none", nil, nil},
		{"same-code-both-sides", srvAll, same},
		{"client-only", nil, same},
		{"server-only", srvAll, nil},
		{"different-codes", srvAll, disj},
		{"code-registered-to-another-species-on-client", srvAll, cross},
		{"two-codes-per-type-on-client", srvAll, multi},
	}
}

func (tb table) serverErrors() (jsonrpc.Errors, bool) {
	if tb.server == nil {
		return jsonrpc.Errors{}, false
	}
	e := jsonrpc.NewErrors()
	for i := 0; i < len(speciesList); i++ { // deterministic order
		if c, ok := tb.server[i]; ok {
			e.Register(c, speciesList[i].reg)
		}
	}
	return e, true
}

func (tb table) clientErrors() (jsonrpc.Errors, bool) {
	if tb.client == nil {
		return jsonrpc.Errors{}, false
	}
	e := jsonrpc.NewErrors()
	for i := 0; i < 2*len(speciesList)+200; i++ { // deterministic order over all codes in use
		c := jsonrpc.ErrorCode(jsonrpc.FirstUserCode + i)
		if si, ok := tb.client[c]; ok {
			e.Register(c, speciesList[si].clientReg())
		}
	}
	return e, true
}

// ---------------------------------------------------------------- reference model

type expectKind int

const (
	xGeneric     expectKind = iota // *JSONRPCError{Code: wire, Message: msg}
	xRoundTrip                     // exactly the registered type (+ content for marshalable/codec)
	xDegrade                       // conversion fails => *JSONRPCError
	xUnspecified                   // property states nothing beyond non-nil error / zero value / no panic
)

func (x expectKind) String() string {
	return [...]string{"generic", "round-trip", "degrade-to-generic", "unspecified"}[x]
}

func model(tb table, si int) (expectKind, jsonrpc.ErrorCode) {
	sp := speciesList[si]
	var wire jsonrpc.ErrorCode = 1
	srvCode, srvReg := tb.server[si]
	if suppliesOwnCode(sp.kind) {
		wire = sCode(si) // codec supplies its code itself
	} else if srvReg {
		wire = srvCode // incl. species whose server-side conversion fails: createError keeps the table code
	}
	cs, has := tb.client[wire]
	if !has {
		return xGeneric, wire
	}
	// the client has a type under the wire code; a conversion that fails must degrade to the
	// generic error whichever species sent the code
	switch ck := speciesList[cs].kind; {
	case ck == kCodecFail:
		return xDegrade, wire
	case ck == kMarshFail && sendsMeta(sp.kind):
		return xDegrade, wire
	}
	if cs == si && srvReg && srvCode == wire && (sp.kind == kPlain || sp.kind == kMarsh || sp.kind == kCodec || sp.kind == kProbeValueMarsh) {
		return xRoundTrip, wire
	}
	return xUnspecified, wire
}

// ---------------------------------------------------------------- server side

type Val struct {
	N int
	S string
}

const (
	ocNil = iota
	ocErr
	ocErrWithValue
)

var outcomeNames = []string{"nil", "err", "err+nonzero-value"}

type Handler struct{}

func (h *Handler) Err(sp int, msg string, oc int) error {
	if oc == ocNil {
		return nil
	}
	return speciesList[sp].make(msg)
}

func (h *Handler) ValErr(sp int, msg string, oc int) (Val, error) {
	switch oc {
	case ocNil:
		return Val{N: 1, S: "ok"}, nil
	case ocErr:
		return Val{}, speciesList[sp].make(msg)
	default:
		return Val{N: 99, S: "leak"}, speciesList[sp].make(msg)
	}
}

// ChanErr: a channel-returning method that fails; with oc == ocErrWithValue it returns a live
// channel together with the error.
func (h *Handler) ChanErr(sp int, msg string, oc int) (<-chan int, error) {
	ch := make(chan int)
	close(ch)
	switch oc {
	case ocNil:
		return ch, nil
	case ocErr:
		return nil, speciesList[sp].make(msg)
	default:
		return ch, speciesList[sp].make(msg)
	}
}

type clientAPI struct {
	ChanErr func(sp int, msg string, oc int) (<-chan int, error)
	Err     func(sp int, msg string, oc int) error
	ValErr  func(sp int, msg string, oc int) (Val, error)
}

// ---------------------------------------------------------------- messages

func messages() []string {
	big := strings.Repeat("a\u00e9\u4e16\U0001F600", 409) + "abcdef" // 4096 bytes, mixed widths
	return []string{"", "a", `<>&"\`, "\u0001", "\u2028", "\u4e16", "\U0001F600", big}
}

func trunc(s string) string {
	if len(s) <= 40 {
		return s
	}
	n := 40
	for n > 0 && !utf8.RuneStart(s[n]) {
		n--
	}
	return s[:n]
}

// ---------------------------------------------------------------- transports

type conn struct {
	api   clientAPI
	close func()
}

func dial(transport string, tb table) (*conn, error) {
	var sopts []jsonrpc.ServerOption
	sopts = append(sopts, jsonrpc.WithServerPingInterval(0))
	if se, ok := tb.serverErrors(); ok {
		sopts = append(sopts, jsonrpc.WithServerErrors(se))
	}
	srv := jsonrpc.NewServer(sopts...)
	srv.Register("H", &Handler{})

	var copts []jsonrpc.Option
	if ce, ok := tb.clientErrors(); ok {
		copts = append(copts, jsonrpc.WithErrors(ce))
	}
	c := &conn{}
	switch transport {
	case "custom":
		do := func(ctx context.Context, body []byte) (io.ReadCloser, error) {
			pr, pw := io.Pipe()
			go func() {
				defer pw.Close()
				srv.HandleRequest(ctx, bytes.NewReader(body), pw)
			}()
			return pr, nil
		}
		closer, err := jsonrpc.NewCustomClient("H", []interface{}{&c.api}, do, copts...)
		if err != nil {
			return nil, err
		}
		c.close = closer
	case "http", "ws":
		ts := httptest.NewServer(srv)
		if transport == "ws" {
			copts = append(copts, jsonrpc.WithPingInterval(0), jsonrpc.WithNoReconnect())
		}
		closer, err := jsonrpc.NewMergeClient(context.Background(), transport+"://"+ts.Listener.Addr().String(), "H", []interface{}{&c.api}, nil, copts...)
		if err != nil {
			ts.Close()
			return nil, err
		}
		c.close = func() {
			closer()
			ts.CloseClientConnections()
			ts.Close()
		}
	default:
		return nil, fmt.Errorf("unknown transport %q", transport)
	}
	return c, nil
}

// ---------------------------------------------------------------- the check

func TestC11(t *testing.T) {
	c := rep.New("C11")
	c.SetMaxViolations(200)
	transports := []string{"custom"}
	if rep.Tier() == "thorough" {
		transports = []string{"custom", "http", "ws"}
	}
	msgs := messages()
	for _, m := range msgs {
		if !utf8.ValidString(m) || (len(m) > 40 && len(m) != 4096) {
			t.Fatalf("bad message alphabet entry %q (len %d)", trunc(m), len(m))
		}
	}
	shapes := []string{"error", "(T,error)"}
	exhaustive := true
	probeLost, probeKept := 0, 0
	unspecifiedSeen := map[string]int{}

	for _, tr := range transports {
		for _, tb := range tables() {
			cn, err := dial(tr, tb)
			if err != nil {
				t.Errorf("setup %s/%s: %v", tr, tb.name, err)
				exhaustive = false
				continue
			}
			for si, sp := range speciesList {
				want, wire := model(tb, si)
				for mi, msg := range msgs {
					for _, shape := range shapes {
						for oc := ocNil; oc <= ocErrWithValue; oc++ {
							if oc == ocNil && mi != 0 {
								continue // the nil outcome has no message; evaluate it once per species
							}
							if oc == ocErrWithValue && shape == "error" {
								continue // no value to return in this shape
							}
							id := fmt.Sprintf("species=%s table=%s msg=%q(len %d) shape=%s outcome=%s transport=%s",
								sp.name, tb.name, trunc(msg), len(msg), shape, outcomeNames[oc], tr)
							input := map[string]interface{}{"species": sp.name, "table": tb.name, "msg": trunc(msg), "msg_len": len(msg),
								"shape": shape, "outcome": outcomeNames[oc], "transport": tr, "expect": want.String(), "wire_code": int(wire)}

							var got error
							var val Val
							var panicked interface{}
							func() {
								defer func() { panicked = recover() }()
								if shape == "error" {
									got = cn.api.Err(si, msg, oc)
								} else {
									val, got = cn.api.ValErr(si, msg, oc)
								}
							}()
							class := want.String()
							if oc == ocNil {
								class = "nil"
							}
							c.Case(id, true, tr+"/"+class)
							c.Sample(input)

							recv := func() string {
								if got == nil {
									return "received <nil>"
								}
								if rv := reflect.ValueOf(got); rv.Kind() == reflect.Ptr && rv.IsNil() {
									return fmt.Sprintf("received nil pointer of type %T", got)
								}
								return fmt.Sprintf("received %T %q", got, trunc(got.Error()))
							}
							bad := func(format string, a ...interface{}) {
								c.Violate(tr, input, "%s: %s; %s", id, fmt.Sprintf(format, a...), recv())
							}

							if panicked != nil {
								got = nil
								bad("client call panicked: %v", panicked)
								continue
							}
							// (4) err != nil on the handler side <=> err != nil on the caller side
							if oc == ocNil {
								if got != nil {
									bad("handler returned nil but the caller got an error")
								}
								continue
							}
							if got == nil || (reflect.ValueOf(got).Kind() == reflect.Ptr && reflect.ValueOf(got).IsNil()) {
								bad("handler returned an error but the caller got nil")
								continue
							}
							if shape != "error" && val != (Val{}) {
								bad("value return is %+v, want the zero value on error", val)
							}
							orig := sp.make(msg)

							generic := func(why string) {
								je, ok := got.(*jsonrpc.JSONRPCError)
								if !ok {
									bad("%s: want *jsonrpc.JSONRPCError", why)
									return
								}
								if je.Message != orig.Error() {
									bad("%s: Message %q differs from the handler's Error() (valid UTF-8: %v)", why, trunc(je.Message), utf8.ValidString(je.Message))
								}
								if je.Code != wire {
									bad("%s: Code %d, want %d", why, je.Code, wire)
								}
							}

							switch want {
							case xGeneric:
								generic("code not registered on the client")
							case xDegrade:
								generic("conversion fails, must degrade to the generic error")
							case xRoundTrip:
								if reflect.TypeOf(got) != sp.typ {
									bad("registered under code %d on both sides: want dynamic type exactly %v", wire, sp.typ)
									break
								}
								switch sp.kind {
								case kMarsh:
									a, e1 := json.Marshal(got)
									b, e2 := json.Marshal(orig)
									if e1 != nil || e2 != nil || !bytes.Equal(a, b) {
										bad("marshalled content differs: received %s original %s (errs %v %v)", trunc(string(a)), trunc(string(b)), e1, e2)
									}
								case kCodec:
									if *(got.(*EC)) != *(orig.(*EC)) {
										g, o := got.(*EC), orig.(*EC)
										bad("codec fields differ: received {Code:%d Msg:%q S:%q N:%d} original {Code:%d Msg:%q S:%q N:%d}",
											g.Code, trunc(g.Msg), trunc(g.S), g.N, o.Code, trunc(o.Msg), trunc(o.S), o.N)
									}
								case kProbeValueMarsh:
									// observation only: see final report ("uncertain")
									a, _ := json.Marshal(got)
									b, _ := json.Marshal(orig)
									if bytes.Equal(a, b) {
										probeKept++
									} else {
										probeLost++
									}
								}
							case xUnspecified:
								unspecifiedSeen[fmt.Sprintf("%s/%s -> %T", tb.name, sp.name, got)]++
								// whatever the client builds, if it is the generic error it carries the handler's message
								if je, ok := got.(*jsonrpc.JSONRPCError); ok && je.Message != orig.Error() {
									bad("generic error received but its Message %q differs from the handler's Error()", trunc(je.Message))
								}
							}
						}
					}
				}
			}
			cn.close()
		}
	}
	// channel-returning methods (WebSocket only): an error from the handler reaches the caller as an
	// error with a nil channel, also when the handler returned a live channel next to it. The
	// phase runs in a child process: a defect here can crash the client process from a library
	// goroutine (F13 did), and that has to be reported as a finding about the input, not to take
	// the enumerator down.
	{
		evf := filepath.Join(t.TempDir(), "chan-events.jsonl")
		cmd := exec.Command(os.Args[0], "-test.run", "^TestC11ChanChild$", "-test.timeout", "600s")
		cmd.Env = append(os.Environ(), "C11_CHAN_CHILD="+evf)
		out, runErr := cmd.CombinedOutput()
		var last chanEvent
		if raw, err := os.ReadFile(evf); err == nil {
			for _, line := range bytes.Split(raw, []byte("\n")) {
				var ev chanEvent
				if len(line) == 0 || json.Unmarshal(line, &ev) != nil {
					continue
				}
				switch ev.Kind {
				case "start":
					last = ev
				case "case":
					c.Case(ev.ID, true, ev.Class)
					c.Sample(ev.Input)
				case "viol":
					c.Violate("ws", ev.Input, "%s", ev.Msg)
				case "setup":
					t.Errorf("%s", ev.Msg)
					exhaustive = false
				}
			}
		}
		if runErr != nil {
			var key []string
			for _, l := range strings.Split(string(out), "\n") {
				if strings.HasPrefix(l, "panic:") || strings.HasPrefix(l, "fatal error:") || strings.Contains(l, "go-jsonrpc.(") {
					key = append(key, strings.TrimSpace(l))
				}
				if len(key) >= 4 {
					break
				}
			}
			c.Violate("ws", last.Input, "the client process crashed while making channel-returning calls (last case started: %s): %v: %s", last.ID, runErr, strings.Join(key, " | "))
			exhaustive = false
		}
	}
	c.Extra("uncertain_value_form_marshalable_content_lost", probeLost)
	c.Extra("uncertain_value_form_marshalable_content_kept", probeKept)
	c.Extra("unspecified_observations", unspecifiedSeen)
	c.Extra("transports", transports)
	c.Write(t, exhaustive, fmt.Sprintf("complete product: %d transports x 7 registration tables (none, same code both sides, client only, server only, "+
		"different codes, code registered to another species on the client, every type under two codes on the client) x %d error species (errors.New, plain value, plain pointer, marshalable, "+
		"marshalable with failing UnmarshalJSON in pointer-form and in value-form client registration, codec, codec with failing FromJSONRPCError in "+
		"pointer-form and in value-form client registration, marshalable with failing MarshalJSON, codec with failing ToJSONRPCError, one struct in "+
		"value form and in pointer form under two codes, a pointer to a type registered in value form only (itself unregistered), plus a value-form marshalable probe) x 8 messages (empty, ascii, escaping-heavy, U+0001, U+2028, 3-byte, 4-byte, 4 KiB) x "+
		"{shape error: err; shape (T,error): err, err with non-zero value}, and the nil outcome once per species and shape; one server+client per "+
		"(table, transport); each call compared with a table-lookup reference model; plus channel-returning methods over ws (tables none/same x species x 2 messages x {channel, error, channel+error})", len(transports), len(speciesList)))
}

// chanEvent is one line of the channel phase's event file (child process -> parent).
type chanEvent struct {
	Kind  string                 `json:"kind"` // start | case | viol | setup
	ID    string                 `json:"id,omitempty"`
	Class string                 `json:"class,omitempty"`
	Input map[string]interface{} `json:"input,omitempty"`
	Msg   string                 `json:"msg,omitempty"`
}

// TestC11ChanChild runs the channel-returning-method phase of TestC11 in a process of its own.
func TestC11ChanChild(t *testing.T) {
	evf := os.Getenv("C11_CHAN_CHILD")
	if evf == "" {
		t.Skip("runs only as a child of TestC11")
	}
	f, err := os.Create(evf)
	if err != nil {
		t.Fatal(err)
	}
	defer f.Close()
	emit := func(ev chanEvent) {
		b, _ := json.Marshal(ev)
		f.Write(append(b, '\n'))
	}
	viol := func(input map[string]interface{}, format string, a ...interface{}) {
		emit(chanEvent{Kind: "viol", Input: input, Msg: fmt.Sprintf(format, a...)})
	}
	msgs := messages()
	for _, tb := range tables() {
		if tb.name != "none" && tb.name != "same-code-both-sides" {
			continue
		}
		cn, err := dial("ws", tb)
		if err != nil {
			emit(chanEvent{Kind: "setup", Msg: fmt.Sprintf("setup ws/%s: %v", tb.name, err)})
			continue
		}
		for si, sp := range speciesList {
			_, wire := model(tb, si)
			for _, msg := range msgs[:2] {
				for oc := ocNil; oc <= ocErrWithValue; oc++ {
					id := fmt.Sprintf("species=%s table=%s msg=%q shape=(<-chan,error) outcome=%s transport=ws", sp.name, tb.name, msg, outcomeNames[oc])
					input := map[string]interface{}{"species": sp.name, "table": tb.name, "msg": msg, "shape": "(<-chan int,error)", "outcome": outcomeNames[oc], "transport": "ws", "wire_code": int(wire)}
					var ch <-chan int
					var got error
					var panicked interface{}
					emit(chanEvent{Kind: "start", ID: id, Input: input})
					func() {
						defer func() { panicked = recover() }()
						ch, got = cn.api.ChanErr(si, msg, oc)
					}()
					emit(chanEvent{Kind: "case", ID: id, Class: "ws/chan-" + outcomeNames[oc], Input: input})
					switch {
					case panicked != nil:
						viol(input, "%s: client call panicked: %v", id, panicked)
					case oc == ocNil && (got != nil || ch == nil):
						viol(input, "%s: handler returned a channel and no error, caller got channel=%v err=%v", id, ch != nil, got)
					case oc != ocNil && got == nil:
						viol(input, "%s: handler returned an error but the caller got nil (channel=%v)", id, ch != nil)
					case oc != ocNil && ch != nil:
						viol(input, "%s: value return is a non-nil channel, want the zero value on error (err %v)", id, got)
					case oc != ocNil && got.Error() != sp.make(msg).Error():
						if je, ok := got.(*jsonrpc.JSONRPCError); ok && je.Message != sp.make(msg).Error() {
							viol(input, "%s: generic error whose Message %q differs from the handler's", id, trunc(je.Message))
						}
					}
				}
			}
		}
		cn.close()
	}
}
