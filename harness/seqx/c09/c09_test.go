// C09 — server replies conform to JSON-RPC 2.0 for every request, single or batch.
// Bounded-exhaustive enumeration of a request grammar against a reference responder
// (DESIGN.md §3 C09, §2.8).
package c09

import (
	"bytes"
	"context"
	"encoding/json"
	"errors"
	"fmt"
	"math/big"
	"net/http/httptest"
	"os"
	"reflect"
	"sort"
	"strconv"
	"strings"
	"sync"
	"testing"
	"time"

	"github.com/filecoin-project/go-jsonrpc"
	"github.com/gorilla/websocket"

	"verifharness/seqx/rep"
)

// ---------------------------------------------------------------------------------------
// The handler under the real server. Every execution is logged with the token it received.
// ---------------------------------------------------------------------------------------

type run struct{ method, token string }

type M struct {
	mu   sync.Mutex
	runs []run
	sig  chan struct{}
}

func (m *M) rec(method, tok string) {
	m.mu.Lock()
	m.runs = append(m.runs, run{method, tok})
	m.mu.Unlock()
	select {
	case m.sig <- struct{}{}:
	default:
	}
}

func (m *M) take() []run {
	m.mu.Lock()
	r := m.runs
	m.runs = nil
	m.mu.Unlock()
	return r
}

func (m *M) count() int {
	m.mu.Lock()
	defer m.mu.Unlock()
	return len(m.runs)
}

func (m *M) Value(tok string) string { m.rec("M.Value", tok); return tok }
func (m *M) Fail(ctx context.Context, tok string) error {
	m.rec("M.Fail", tok)
	return errors.New("fail " + tok)
}
func (m *M) Both(tok string) (string, error) {
	m.rec("M.Both", tok)
	return tok, errors.New("both " + tok)
}
func (m *M) Pair(ctx context.Context, tok string) (string, error) {
	m.rec("M.Pair", tok)
	return tok, nil
}
func (m *M) Ok(tok string) error { m.rec("M.Ok", tok); return nil }
func (m *M) Void(tok string)     { m.rec("M.Void", tok) }
func (m *M) Two(ctx context.Context, tok string, n int) (string, error) {
	m.rec("M.Two", tok)
	return tok, nil
}
func (m *M) Typed(tok string, n int) string { m.rec("M.Typed", tok); return tok }
func (m *M) Nullary() string                { m.rec("M.Nullary", ""); return "nullary" }
func (m *M) Sentinel() string               { return "sentinel" } // WS delimiter, not logged

// ---------------------------------------------------------------------------------------
// Reference model.
// ---------------------------------------------------------------------------------------

var (
	tString = reflect.TypeOf("")
	tInt    = reflect.TypeOf(0)
)

type mspec struct {
	params []reflect.Type
	fails  bool // the handler returns a non-nil error
	echo   bool // the result is the token (first parameter)
}

var specs = map[string]mspec{
	"M.Value":    {[]reflect.Type{tString}, false, true},
	"M.Fail":     {[]reflect.Type{tString}, true, false},
	"M.Both":     {[]reflect.Type{tString}, true, false},
	"M.Pair":     {[]reflect.Type{tString}, false, true},
	"M.Ok":       {[]reflect.Type{tString}, false, false},
	"M.Void":     {[]reflect.Type{tString}, false, false},
	"M.Two":      {[]reflect.Type{tString, tInt}, false, true},
	"M.Typed":    {[]reflect.Type{tString, tInt}, false, true},
	"M.Nullary":  {nil, false, false},
	"M.Sentinel": {nil, false, false},
}

// "dangling" is an alias whose target is not registered: it must be rejected as -32601
var aliases = map[string]string{"Alias.Value": "M.Value", "short": "M.Pair", "dangling": "M.Gone"}

const (
	oResult = iota
	oError
	oAny // the statement does not fix whether this request is accepted (params null / {} on a 0-ary method)
)

// want is what the reference model expects for one request element.
type want struct {
	invalid bool   // not a request object at all (not an object, or no string "method")
	idless  bool   // (invalid only) an object without a non-null id
	notif   bool   // no id member, or "id":null: must produce no response
	badID   bool   // id present with an invalid JSON type: response carries id null
	id      string // JSON text of the request id (when !notif && !badID)
	outcome int
	code    int // required error code; 0 = not one of the four the statement names
	runs    int // 1 handler runs exactly once; 0 never; -1 exactly once iff the response is a result
	method  string
	token   string
	echo    bool
}

func (w want) wantID() string {
	if w.badID || w.notif || w.invalid {
		return "null"
	}
	return w.id
}

func (w want) shape() string {
	switch {
	case w.invalid:
		return "X"
	case w.badID:
		return "B"
	case w.notif && w.runs == 0:
		return "F" // failing notification
	case w.notif:
		return "N"
	case w.runs == 0:
		return "R" // rejected call
	}
	return "A" // accepted call
}

func trimWS(b []byte) []byte { return bytes.Trim(b, " \t\r\n") }

func jsonKind(raw []byte) byte {
	raw = trimWS(raw)
	if len(raw) == 0 {
		return 0
	}
	switch c := raw[0]; {
	case c == '"':
		return 's'
	case c == '-' || (c >= '0' && c <= '9'):
		return 'n'
	case c == 'n':
		return '0'
	case c == '{':
		return 'o'
	case c == '[':
		return 'a'
	}
	return 'b'
}

func refElem(raw []byte) want {
	var obj map[string]json.RawMessage
	if jsonKind(raw) != 'o' || json.Unmarshal(raw, &obj) != nil {
		// JSON null carries no id either: a reply is not demanded for it (same leniency as for {})
		return want{invalid: true, idless: jsonKind(raw) == '0'}
	}
	w := want{}
	idRaw, hasID := obj["id"]
	switch k := jsonKind(idRaw); {
	case !hasID || k == '0':
		w.notif = true
	case k == 's' || k == 'n':
		w.id = string(idRaw)
	default:
		w.badID = true
	}
	var method string
	if mraw, ok := obj["method"]; !ok || jsonKind(mraw) != 's' || json.Unmarshal(mraw, &method) != nil {
		return want{invalid: true, idless: w.notif}
	}
	w.method = method
	if w.badID {
		w.outcome = oError
		return w
	}
	sp, ok := specs[method]
	if !ok {
		if to, isAlias := aliases[method]; isAlias {
			w.method = to
			sp, ok = specs[to]
		}
	}
	if !ok {
		w.outcome, w.code = oError, -32601
		return w
	}
	accept := func() want {
		w.runs, w.echo = 1, sp.echo
		w.outcome = oResult
		if sp.fails {
			w.outcome = oError
		}
		return w
	}
	praw, hasParams := obj["params"]
	if !hasParams {
		if len(sp.params) == 0 {
			return accept()
		}
		w.outcome, w.code = oError, -32602
		return w
	}
	switch jsonKind(praw) {
	case 'a':
		var ps []json.RawMessage
		_ = json.Unmarshal(praw, &ps)
		if len(ps) != len(sp.params) {
			w.outcome, w.code = oError, -32602
			return w
		}
		for i, p := range ps {
			if json.Unmarshal(p, reflect.New(sp.params[i]).Interface()) != nil {
				w.outcome = oError // wrong parameter type: an error, the code is not named
				return w
			}
		}
		if len(ps) > 0 && jsonKind(ps[0]) == 's' {
			_ = json.Unmarshal(ps[0], &w.token)
		}
		return accept()
	case '0', 'o':
		if len(sp.params) == 0 {
			w.outcome, w.runs = oAny, -1
			return w
		}
	}
	w.outcome = oError // params of a non-array type for a method that takes parameters
	return w
}

type expBody struct {
	fixed      int // whole-body error with null id: -32700 (malformed JSON) or -32600 (empty request)
	batch      bool
	degenerate bool // contains something that is not a request object
	elems      []want
}

func (e expBody) shape() string {
	if e.fixed != 0 {
		return strconv.Itoa(e.fixed)
	}
	s := ""
	for _, w := range e.elems {
		s += w.shape()
	}
	if e.batch {
		return "[" + s + "]"
	}
	return s
}

// refRPC is the reference responder: what must come back for this body.
func refRPC(body []byte) expBody {
	b := trimWS(body)
	if len(b) == 0 {
		return expBody{fixed: -32600}
	}
	if !json.Valid(b) {
		return expBody{fixed: -32700}
	}
	if b[0] != '[' {
		w := refElem(b)
		return expBody{elems: []want{w}, degenerate: w.invalid}
	}
	var raws []json.RawMessage
	_ = json.Unmarshal(b, &raws)
	if len(raws) == 0 {
		return expBody{fixed: -32600}
	}
	e := expBody{batch: true}
	for _, r := range raws {
		w := refElem(r)
		e.elems = append(e.elems, w)
		e.degenerate = e.degenerate || w.invalid
	}
	return e
}

// ---------------------------------------------------------------------------------------
// Judging a reply against the model.
// ---------------------------------------------------------------------------------------

type finding struct{ clause, detail string }

func members(raw []byte) (map[string]json.RawMessage, []string, bool) {
	dec := json.NewDecoder(bytes.NewReader(raw))
	dec.UseNumber()
	t, err := dec.Token()
	if d, ok := t.(json.Delim); err != nil || !ok || d != '{' {
		return nil, nil, false
	}
	m := map[string]json.RawMessage{}
	var dup []string
	for dec.More() {
		k, err := dec.Token()
		if err != nil {
			return nil, nil, false
		}
		key, _ := k.(string)
		var v json.RawMessage
		if err := dec.Decode(&v); err != nil {
			return nil, nil, false
		}
		if _, seen := m[key]; seen {
			dup = append(dup, key)
		}
		m[key] = v
	}
	return m, dup, true
}

func sameID(got, wantText []byte) bool {
	kg, kw := jsonKind(got), jsonKind(wantText)
	if kg != kw {
		return false
	}
	switch kg {
	case '0':
		return string(trimWS(got)) == "null"
	case 's':
		var a, b string
		return json.Unmarshal(got, &a) == nil && json.Unmarshal(wantText, &b) == nil && a == b
	case 'n':
		a, ok1 := new(big.Rat).SetString(string(trimWS(got)))
		b, ok2 := new(big.Rat).SetString(string(trimWS(wantText)))
		return ok1 && ok2 && a.Cmp(b) == 0
	}
	return false
}

// checkObj compares one response object with the expectation for its request.
// It reports whether the object carries a result (used for the oAny execution rule).
func checkObj(raw []byte, w want) (hasResult bool, fs []finding) {
	add := func(clause, f string, a ...interface{}) { fs = append(fs, finding{clause, fmt.Sprintf(f, a...)}) }
	m, dup, ok := members(raw)
	if !ok {
		add("response-not-an-object", "response %q is not a JSON object", raw)
		return
	}
	if len(dup) > 0 {
		add("duplicate-member", "response %q repeats members %v", raw, dup)
	}
	if v, ok := m["jsonrpc"]; !ok || string(trimWS(v)) != `"2.0"` {
		add("jsonrpc-version", "response %q: jsonrpc member is %q, want \"2.0\"", raw, v)
	}
	if v, ok := m["id"]; !ok {
		add("id-missing", "response %q has no id member (want %s)", raw, w.wantID())
	} else if !sameID(v, []byte(w.wantID())) {
		add("id-mismatch", "response %q: id %s does not equal the request id %s in JSON type and value", raw, v, w.wantID())
	}
	res, hasRes := m["result"]
	errv, hasErr := m["error"]
	if hasRes == hasErr {
		add("result-xor-error", "response %q carries result=%v error=%v (exactly one required)", raw, hasRes, hasErr)
		return hasRes, fs
	}
	if hasErr {
		em, _, isObj := members(errv)
		code, haveCode := 0, false
		if isObj {
			if cv, ok := em["code"]; ok && jsonKind(cv) == 'n' {
				if r, ok := new(big.Rat).SetString(string(trimWS(cv))); ok && r.IsInt() && r.Num().IsInt64() {
					code, haveCode = int(r.Num().Int64()), true
				}
			}
		}
		if !isObj || !haveCode {
			add("error-object-malformed", "response %q: error member is not an object with an integer code", raw)
		} else if mv, ok := em["message"]; !ok || jsonKind(mv) != 's' {
			add("error-object-malformed", "response %q: error member has no string message", raw)
		}
		switch {
		case w.outcome == oResult:
			add("error-for-acceptable-request", "response %q is an error, the request is valid and its handler returns no error", raw)
		case haveCode && w.code != 0 && code != w.code:
			add("error-code", "response %q: error code %d, want %d", raw, code, w.code)
		}
		return false, fs
	}
	if w.outcome == oError {
		if w.code != 0 {
			add("result-for-rejectable-request", "response %q is a result, want error %d", raw, w.code)
		} else {
			add("result-for-rejectable-request", "response %q is a result, want an error", raw)
		}
	} else if w.echo {
		var s string
		if json.Unmarshal(res, &s) != nil || s != w.token {
			add("result-value", "response %q: result %s is not the token %q this request carried", raw, res, w.token)
		}
	}
	return true, fs
}

type runExp struct{ lo, hi map[run]int }

func newRunExp() runExp { return runExp{map[run]int{}, map[run]int{}} }

func (r runExp) need(w want) {
	if w.runs == 1 {
		k := run{w.method, w.token}
		r.lo[k]++
		r.hi[k]++
	}
}

// anyElem: an oAny element; res = -1 unknown reply, 0 error reply, 1 result reply.
func (r runExp) anyElem(w want, res int) {
	k := run{w.method, w.token}
	switch res {
	case 1:
		r.lo[k]++
		r.hi[k]++
	case -1:
		r.hi[k]++
	}
}

func (r runExp) judge(runs []run) (fs []finding) {
	got := map[run]int{}
	for _, x := range runs {
		got[x]++
	}
	keys := map[run]bool{}
	for k := range got {
		keys[k] = true
	}
	for k := range r.hi {
		keys[k] = true
	}
	var ks []run
	for k := range keys {
		ks = append(ks, k)
	}
	sort.Slice(ks, func(i, j int) bool { return ks[i].method+"\x00"+ks[i].token < ks[j].method+"\x00"+ks[j].token })
	for _, k := range ks {
		n := got[k]
		switch {
		case r.hi[k] == 0 && n > 0:
			fs = append(fs, finding{"rejected-request-ran-handler", fmt.Sprintf("handler %s(token %q) ran %d times for a request that must not run a handler", k.method, k.token, n)})
		case n < r.lo[k]:
			fs = append(fs, finding{"accepted-request-not-run-once", fmt.Sprintf("handler %s(token %q) ran %d times, want %d", k.method, k.token, n, r.lo[k])})
		case n > r.hi[k]:
			fs = append(fs, finding{"handler-ran-more-than-once", fmt.Sprintf("handler %s(token %q) ran %d times, want %d", k.method, k.token, n, r.hi[k])})
		}
	}
	return fs
}

var errNull = want{invalid: true, outcome: oError}

// judgeHTTP decides one (body, reply, executions) triple from ServeHTTP / HandleRequest.
func judgeHTTP(exp expBody, reply []byte, runs []run) (fs []finding) {
	add := func(clause, f string, a ...interface{}) { fs = append(fs, finding{clause, fmt.Sprintf(f, a...)}) }
	t := trimWS(reply)
	re := newRunExp()
	oneValue := func() bool {
		if len(t) == 0 {
			add("empty-reply-to-non-notification", "empty reply although the body is not made of notifications only")
			return false
		}
		if !json.Valid(t) {
			add("reply-not-one-json-value", "reply is not exactly one well-formed JSON value")
			return false
		}
		return true
	}
	switch {
	case exp.fixed != 0:
		if oneValue() {
			if t[0] != '{' {
				add("reply-shape", "want a single error object (code %d, id null)", exp.fixed)
			} else {
				_, f := checkObj(t, want{invalid: true, outcome: oError, code: exp.fixed})
				fs = append(fs, f...)
			}
		}
	case exp.degenerate:
		allIdless := true
		for _, w := range exp.elems {
			if !w.invalid && !w.notif {
				panic("oracle: degenerate body mixed with id-bearing requests is outside the enumerated grammar")
			}
			allIdless = allIdless && (w.notif || w.idless)
		}
		if len(t) == 0 && allIdless {
			break
		}
		if oneValue() {
			var objs []json.RawMessage
			if t[0] == '[' {
				_ = json.Unmarshal(t, &objs)
				if !exp.batch || len(objs) == 0 || len(objs) > len(exp.elems) {
					add("reply-shape", "array of %d elements for a body with %d invalid requests", len(objs), len(exp.elems))
				}
			} else {
				objs = []json.RawMessage{t}
			}
			for _, o := range objs {
				_, f := checkObj(o, errNull)
				fs = append(fs, f...)
			}
		}
	case !exp.batch:
		w := exp.elems[0]
		res := -1
		if w.notif {
			if len(t) != 0 {
				if w.shape() != "F" {
					add("reply-to-notification", "non-empty reply to a notification")
				} else if oneValue() { // leniency of the statement for one failing notification
					_, f := checkObj(t, want{notif: true, outcome: oError})
					fs = append(fs, f...)
				}
			}
		} else if oneValue() {
			if t[0] != '{' {
				add("reply-shape", "reply to a single request is not one response object")
			} else {
				hasRes, f := checkObj(t, w)
				fs = append(fs, f...)
				res = 0
				if hasRes {
					res = 1
				}
			}
		}
		re.need(w)
		if w.runs == -1 {
			re.anyElem(w, res)
		}
	default:
		var idb []want
		for _, w := range exp.elems {
			if !w.notif {
				idb = append(idb, w)
			}
		}
		var objs []json.RawMessage
		matched := false
		if len(idb) == 0 {
			if len(t) != 0 {
				add("reply-to-all-notification-batch", "non-empty reply to a batch made of notifications only")
			}
		} else if oneValue() {
			if t[0] != '[' {
				add("reply-shape", "reply to a batch is not an array")
			} else if _ = json.Unmarshal(t, &objs); len(objs) != len(idb) {
				add("batch-reply-length", "array of %d responses for %d id-bearing requests", len(objs), len(idb))
			} else {
				matched = true
			}
		}
		for i, w := range idb {
			res := -1
			if matched {
				hasRes, f := checkObj(objs[i], w)
				for _, x := range f {
					fs = append(fs, finding{x.clause, fmt.Sprintf("element %d: %s", i, x.detail)})
				}
				res = 0
				if hasRes {
					res = 1
				}
			}
			if w.runs == -1 {
				re.anyElem(w, res)
			}
		}
		for _, w := range exp.elems {
			re.need(w)
		}
	}
	return append(fs, re.judge(runs)...)
}

// judgeWS decides the frames received for one request frame.
func judgeWS(w want, frames [][]byte, runs []run) (fs []finding) {
	add := func(clause, f string, a ...interface{}) { fs = append(fs, finding{clause, fmt.Sprintf(f, a...)}) }
	re := newRunExp()
	re.need(w)
	res := -1
	switch {
	case w.invalid:
		panic("oracle: invalid requests are not part of the WS grammar")
	case w.notif:
		if len(frames) != 0 {
			add("ws-response-to-notification", "%d response frames for a notification", len(frames))
		}
	case w.badID:
		// the statement speaks of frames with a valid id and of notifications only
		if len(frames) > 1 {
			add("ws-multiple-responses", "%d response frames for one request frame", len(frames))
		}
		for _, f := range frames {
			_, x := checkObj(trimWS(f), w)
			fs = append(fs, x...)
		}
	default:
		if len(frames) == 0 {
			add("ws-no-response", "no response frame for a request frame with a valid id")
		} else if len(frames) > 1 {
			add("ws-multiple-responses", "%d response frames for one request frame", len(frames))
		}
		for _, f := range frames {
			t := trimWS(f)
			if !json.Valid(t) {
				add("reply-not-one-json-value", "frame %q is not exactly one well-formed JSON value", f)
				continue
			}
			hasRes, x := checkObj(t, w)
			fs = append(fs, x...)
			res = 0
			if hasRes {
				res = 1
			}
		}
	}
	if w.runs == -1 {
		re.anyElem(w, res)
	}
	return append(fs, re.judge(runs)...)
}

// ---------------------------------------------------------------------------------------
// Grammar.
// ---------------------------------------------------------------------------------------

var ids = []string{`0`, `1`, `-1`, `1.5`, `9007199254740992`, `1e2`, `""`, `"a"`, `"1"`}

func reqJSON(id, method, params string) string {
	s := `{"jsonrpc":"2.0"`
	if id != "" {
		s += `,"id":` + id
	}
	s += `,"method":` + strconv.Quote(method)
	if params != "" {
		s += `,"params":` + params
	}
	return s + "}"
}

type letter struct {
	kind   string
	name   string
	needID bool
	build  func(id, tok string) string
}

func tokParams(extra string) func(string) string {
	return func(tok string) string { return `["` + tok + `"` + extra + `]` }
}

func call(kind, name, method string, params func(tok string) string) letter {
	return letter{kind, name, true, func(id, tok string) string { return reqJSON(id, method, params(tok)) }}
}

func fixedID(kind, name, id, method string, params func(tok string) string) letter {
	return letter{kind, name, false, func(_, tok string) string { return reqJSON(id, method, params(tok)) }}
}

func lit(s string) func(string) string { return func(string) string { return s } }

// alphabet: the 15 element kinds of DESIGN C09 with their variants.
var alphabet = []letter{
	call("01-value", "value", "M.Value", tokParams("")),
	call("02-error", "fail", "M.Fail", tokParams("")),
	call("02-error", "both", "M.Both", tokParams("")),
	call("03-value-nil", "pair", "M.Pair", tokParams("")),
	call("03-value-nil", "nil-error", "M.Ok", tokParams("")),
	call("04-void", "void", "M.Void", tokParams("")),
	fixedID("05-notification", "notif-value", "", "M.Value", tokParams("")),
	fixedID("05-notification", "notif-void", "", "M.Void", tokParams("")),
	fixedID("05-notification", "notif-fail", "", "M.Fail", tokParams("")),
	fixedID("05-notification", "notif-pair", "", "M.Pair", tokParams("")),
	fixedID("06-notification-failing", "notif-unknown", "", "M.Nope", tokParams("")),
	fixedID("06-notification-failing", "notif-unknown-bare", "", "Nope", lit("")),
	fixedID("06-notification-failing", "notif-arity", "", "M.Two", tokParams("")),
	call("07-unknown-method", "unknown", "M.Nope", tokParams("")),
	call("07-unknown-method", "unknown-no-namespace", "Value", tokParams("")),
	call("07-unknown-method", "unknown-case", "M.value", tokParams("")),
	call("08-arity", "arity-k-1", "M.Two", tokParams("")),
	call("08-arity", "arity-k+1", "M.Two", tokParams(",1,2")),
	call("08-arity", "arity-0-of-1", "M.Value", lit("[]")),
	call("08-arity", "arity-1-of-0", "M.Nullary", tokParams("")),
	call("09-param-type", "type-string-for-int", "M.Typed", tokParams(`,"x"`)),
	call("09-param-type", "type-fraction-for-int", "M.Typed", tokParams(",1.5")),
	call("09-param-type", "type-array-for-int", "M.Typed", tokParams(",[1]")),
	call("09-param-type", "type-number-for-string", "M.Value", lit("[1]")),
	call("10-params-absent", "absent-0ary", "M.Nullary", lit("")),
	call("10-params-absent", "absent-1ary", "M.Value", lit("")),
	call("11-params-null", "null-0ary", "M.Nullary", lit("null")),
	call("11-params-null", "null-1ary", "M.Value", lit("null")),
	call("12-params-object", "object-0ary", "M.Nullary", lit("{}")),
	call("12-params-object", "object-1ary", "M.Value", func(tok string) string { return `{"tok":"` + tok + `"}` }),
	fixedID("13-id-null", "idnull-value", "null", "M.Value", tokParams("")),
	fixedID("13-id-null", "idnull-unknown", "null", "M.Nope", tokParams("")),
	fixedID("14-id-invalid", "id-true", "true", "M.Value", tokParams("")),
	fixedID("14-id-invalid", "id-array", "[1]", "M.Value", tokParams("")),
	fixedID("14-id-invalid", "id-object", "{}", "M.Value", tokParams("")),
	call("15-alias", "alias", "Alias.Value", tokParams("")),
	call("15-alias", "alias-short", "short", tokParams("")),
	call("15-alias", "alias-dangling", "dangling", tokParams("")),
}

// layout renders a list of elements as a body. batch=false requires one element.
// ws: 0 compact, 1 leading blanks, 2 trailing newline, 3 padded on both sides and between elements.
func layout(elems []string, batch bool, ws int) string {
	var s string
	if !batch {
		s = elems[0]
	} else if ws == 3 {
		s = "[ " + strings.Join(elems, " ,\n") + "\t]"
	} else {
		s = "[" + strings.Join(elems, ",") + "]"
	}
	switch ws {
	case 1:
		return "  " + s
	case 2:
		return s + "\n"
	case 3:
		return "\t\r\n " + s + " \r\n\t"
	}
	return s
}

var degenerateBodies = []string{"", " ", "[]", "[ ]", "{}", "[{}]", "[1]", "[null]", "null", "1", `"x"`, "[", "]"}

// ---------------------------------------------------------------------------------------
// Driver.
// ---------------------------------------------------------------------------------------

type harness struct {
	t      *testing.T
	c      *rep.Collector
	m      *M
	srv    *jsonrpc.RPCServer
	n      int
	counts map[string]int    // scenario|clause|shape flags -> findings
	first  map[string]string // same key -> first (simplest) message
	viol   int
}

const perClassKept = 3

func flagsOf(shape string) string {
	f := ""
	for _, c := range "NFBXAR" {
		if strings.ContainsRune(shape, c) {
			f += string(c)
		}
	}
	if f == "" {
		return shape
	}
	return f
}

func (h *harness) report(scenario, transport, desc, shape string, body, reply []byte, extra string, fs []finding) {
	for _, f := range fs {
		h.viol++
		key := scenario + "|" + f.clause + "|" + flagsOf(shape)
		h.counts[key]++
		msg := fmt.Sprintf("C09 transport=%s scenario=%s clause=%s shape=%s case=%s body=%q reply=%q%s: %s",
			transport, scenario, f.clause, shape, desc, body, reply, extra, f.detail)
		if h.counts[key] == 1 {
			h.first[key] = msg
		}
		// the simplest few of every (scenario, clause, element-class set) are kept verbatim; all are counted
		if h.counts[key] <= perClassKept {
			h.c.Violate(scenario, map[string]interface{}{"transport": transport, "body": string(body), "case": desc}, "%s", msg)
		}
	}
}

func (h *harness) evalHTTP(class, desc string, body []byte) {
	exp := refRPC(body)
	shape := exp.shape()
	suffix := "single"
	if b := trimWS(body); len(b) > 0 && b[0] == '[' {
		suffix = "batch"
	}
	for _, tr := range []string{"ServeHTTP", "HandleRequest"} {
		h.m.take()
		var reply []byte
		scenario, extra := "handle-request", ""
		// a panic that escapes the server entry point is a finding about this body, not a reason
		// to lose the whole run
		panicked := ""
		func() {
			defer func() {
				if r := recover(); r != nil {
					panicked = fmt.Sprint(r)
				}
			}()
			if tr == "ServeHTTP" {
				scenario = "http-" + suffix
				rec := httptest.NewRecorder()
				defer func() { reply = rec.Body.Bytes(); extra = fmt.Sprintf(" status=%d", rec.Code) }()
				h.srv.ServeHTTP(rec, httptest.NewRequest("POST", "/rpc", bytes.NewReader(body)))
			} else {
				var out bytes.Buffer
				defer func() { reply = out.Bytes() }()
				h.srv.HandleRequest(context.Background(), bytes.NewReader(body), &out)
			}
		}()
		if panicked != "" {
			h.m.take()
			h.c.Case(tr+"|"+desc, true, class)
			h.c.Violate(scenario, map[string]interface{}{"body": string(body)}, "C09 transport=%s scenario=%s clause=server-entry-point-panicked shape=%s case=%s body=%q reply=%q: panic: %s", tr, scenario, shape, desc, body, reply, panicked)
			continue
		}
		runs := h.m.take()
		fs := judgeHTTP(exp, reply, runs)
		h.c.Case(tr+"|"+desc, true, class)
		h.n++
		if h.n <= 6 || h.n%1000 == 0 {
			h.c.Sample(map[string]interface{}{"transport": tr, "body": string(body), "reply": string(reply), "expect": shape, "handler_runs": len(runs), "note": strings.TrimSpace(extra)})
		}
		h.report(scenario, tr, desc, shape, body, reply, extra, fs)
	}
}

// ---- WebSocket ----

const wsPatience = 30 * time.Second // liveness bound; only ever reached when a response is missing

type wsDrv struct {
	h    *harness
	url  string
	conn *websocket.Conn
	seq  int
}

func (d *wsDrv) dial() {
	if d.conn != nil {
		_ = d.conn.Close()
	}
	conn, _, err := websocket.DefaultDialer.Dial(d.url, nil)
	if err != nil {
		d.h.t.Fatalf("ws dial: %v", err)
	}
	d.conn = conn
}

func isReplyTo(msg []byte, sid string) bool {
	var f struct {
		ID json.RawMessage `json:"id"`
	}
	return json.Unmarshal(msg, &f) == nil && string(trimWS(f.ID)) == strconv.Quote(sid)
}

// fence sends a valid call with a fresh id and reads until its response has arrived and at
// least min other frames have been seen; everything else received is appended to frames.
func (d *wsDrv) fence(min int, frames *[][]byte) error {
	d.seq++
	sid := fmt.Sprintf("S%d", d.seq)
	if err := d.conn.WriteMessage(websocket.TextMessage, []byte(reqJSON(strconv.Quote(sid), "M.Sentinel", "[]"))); err != nil {
		return err
	}
	seen := false
	for !seen || len(*frames) < min {
		_ = d.conn.SetReadDeadline(time.Now().Add(wsPatience))
		_, msg, err := d.conn.ReadMessage()
		if err != nil {
			return err
		}
		if isReplyTo(msg, sid) {
			seen = true
			continue
		}
		*frames = append(*frames, msg)
	}
	return nil
}

func (d *wsDrv) eval(class, desc string, frame []byte) {
	h := d.h
	exp := refRPC(frame)
	w := exp.elems[0]
	h.m.take()
	for len(h.m.sig) > 0 {
		<-h.m.sig
	}
	var frames [][]byte
	err := d.conn.WriteMessage(websocket.TextMessage, frame)
	if err == nil && w.runs == 1 {
		// handlers run on their own goroutine: wait for the execution before fencing, so that a
		// (wrong) late response to a notification cannot hide behind the fence
		deadline := time.After(wsPatience)
	wait:
		for h.m.count() < 1 {
			select {
			case <-h.m.sig:
			case <-deadline:
				break wait
			}
		}
	}
	min := 0
	if !w.notif && !w.badID {
		min = 1
	}
	if err == nil {
		err = d.fence(min, &frames)
	}
	if err == nil {
		err = d.fence(0, &frames) // second fence: catches a duplicate response that trails the first fence
	}
	runs := h.m.take()
	fs := judgeWS(w, frames, runs)
	if err != nil {
		fs = append(fs, finding{"ws-connection", fmt.Sprintf("connection unusable or response missing after %v: %v", wsPatience, err)})
		d.dial()
	}
	h.c.Case("ws|"+desc, true, class)
	h.n++
	joined := bytes.Join(frames, []byte(" | "))
	if h.n <= 6 || h.n%1000 == 0 {
		h.c.Sample(map[string]interface{}{"transport": "ws", "body": string(frame), "reply": string(joined), "expect": exp.shape(), "handler_runs": len(runs)})
	}
	h.report("ws", "ws", desc, exp.shape(), frame, joined, fmt.Sprintf(" frames=%d", len(frames)), fs)
}

// ---------------------------------------------------------------------------------------

func TestC09(t *testing.T) {
	tier := rep.Tier()
	maxLen := 2
	if tier == "thorough" {
		maxLen = 3
	}
	c := rep.New("C09")
	c.SetMaxViolations(2000)
	m := &M{sig: make(chan struct{}, 1024)}
	srv := jsonrpc.NewServer(jsonrpc.WithServerPingInterval(0))
	srv.Register("M", m)
	for a, to := range aliases {
		srv.AliasMethod(a, to)
	}
	h := &harness{t: t, c: c, m: m, srv: srv, counts: map[string]int{}, first: map[string]string{}}

	// ---- 1. every single element: letter x id x whitespace ----
	type single struct{ class, desc, body string }
	var singles []single
	for _, l := range alphabet {
		idset := []string{""}
		if l.needID {
			idset = ids
		}
		for _, id := range idset {
			for ws := 0; ws < 4; ws++ {
				body := layout([]string{l.build(id, "p0")}, false, ws)
				singles = append(singles, single{"single/" + l.kind, fmt.Sprintf("single/%s/id=%s/ws%d", l.name, id, ws), body})
			}
		}
	}
	for _, s := range singles {
		h.evalHTTP(s.class, s.desc, []byte(s.body))
	}

	// ---- 2. degenerate bodies ----
	for _, b := range degenerateBodies {
		h.evalHTTP("degenerate", fmt.Sprintf("degenerate/%q", b), []byte(b))
	}

	// ---- 3. truncations of valid bodies at every byte ----
	truncSrc := []string{
		alphabet[0].build(`"a"`, "p0"),
		layout([]string{alphabet[0].build(`1`, "p0"), alphabet[3].build(`"a"`, "p1")}, true, 0),
		layout([]string{alphabet[1].build(`1.5`, "p0"), alphabet[5].build(`0`, "p1"), alphabet[16].build(`"1"`, "p2")}, true, 3),
	}
	for si, src := range truncSrc {
		if e := refRPC([]byte(src)); e.fixed != 0 || e.degenerate {
			t.Fatalf("truncation source %d is not a valid body", si)
		}
		for n := 0; n < len(src); n++ {
			h.evalHTTP("truncation", fmt.Sprintf("trunc/src%d/len=%d", si, n), []byte(src[:n]))
		}
	}

	// ---- 4. a valid body followed by more bytes (not one JSON value) ----
	{
		s := alphabet[0].build(`1`, "p0")
		b := layout([]string{alphabet[0].build(`1`, "p0")}, true, 0)
		s2 := alphabet[0].build(`2`, "p1")
		b2 := layout([]string{alphabet[0].build(`2`, "p1")}, true, 0)
		for i, body := range []string{s + "x", s + s2, s + " 1", b + "]", b + b2, b + "x", "x" + s, "[" + b} {
			if refRPC([]byte(body)).fixed != -32700 {
				t.Fatalf("trailing-bytes body %d unexpectedly valid", i)
			}
			h.evalHTTP("trailing-bytes", fmt.Sprintf("trailing/%d", i), []byte(body))
		}
	}

	// ---- 4b. bodies around the configured maximum request size ----
	// A server with a small limit L: a valid request padded with whitespace to exactly L bytes is
	// answered normally; the same L bytes followed by bytes that make the whole body malformed
	// (and longer than L) must not be answered as if the first L bytes were the request.
	{
		const L = 200
		small := jsonrpc.NewServer(jsonrpc.WithServerPingInterval(0), jsonrpc.WithMaxRequestSize(L))
		small.Register("M", m)
		h2 := &harness{t: t, c: c, m: m, srv: small, counts: h.counts, first: h.first}
		for li, l := range []letter{alphabet[0], alphabet[3], alphabet[5]} {
			for _, batch := range []bool{false, true} {
				id := ids[li%len(ids)]
				if !l.needID {
					id = ""
				}
				base := layout([]string{l.build(id, "p0")}, batch, 0)
				if len(base) > L {
					t.Fatalf("size-limit base body %d is longer than the limit", li)
				}
				padded := base + strings.Repeat(" ", L-len(base))
				h2.evalHTTP("size-limit/at-limit", fmt.Sprintf("sizelimit/%s/batch=%v/exactly-L", l.name, batch), []byte(padded))
				for ti, tail := range []string{"x", "}", "]", ",", alphabet[0].build(`7`, "p1"), strings.Repeat("y", 300)} {
					body := padded + tail
					if refRPC([]byte(body)).fixed != -32700 {
						t.Fatalf("oversize body with tail %d unexpectedly valid", ti)
					}
					h2.evalHTTP("size-limit/over-limit", fmt.Sprintf("sizelimit/%s/batch=%v/L+tail%d", l.name, batch, ti), []byte(body))
				}
			}
		}
		h.viol += h2.viol
		h.n += h2.n
	}

	// ---- 6. every batch of length 1..maxLen over the alphabet ----
	// ids: length 1 takes every id; length 2 takes 9 rotations (position p gets ids[(r+4p)%9]);
	// length 3 takes the rotation r = (sum of letter indices)%9, so that over the enumeration every
	// letter meets every id at every position.
	A := len(alphabet)
	for L := 1; L <= maxLen; L++ {
		idx := make([]int, L)
		for {
			anyID := false
			for _, li := range idx {
				anyID = anyID || alphabet[li].needID
			}
			var rots []int
			switch {
			case !anyID:
				rots = []int{0}
			case L <= 2:
				rots = []int{0, 1, 2, 3, 4, 5, 6, 7, 8}
			default:
				sum := 0
				for _, li := range idx {
					sum += li
				}
				rots = []int{sum % 9}
			}
			for _, r := range rots {
				elems := make([]string, L)
				names := make([]string, L)
				for p, li := range idx {
					elems[p] = alphabet[li].build(ids[(r+4*p)%9], fmt.Sprintf("p%d", p))
					names[p] = alphabet[li].name
				}
				for ws := 0; ws < 4; ws++ {
					h.evalHTTP(fmt.Sprintf("batch-len%d", L), fmt.Sprintf("batch/%s/r%d/ws%d", strings.Join(names, ","), r, ws), []byte(layout(elems, true, ws)))
				}
			}
			// odometer, last position fastest
			p := L - 1
			for p >= 0 {
				idx[p]++
				if idx[p] < A {
					break
				}
				idx[p] = 0
				p--
			}
			if p < 0 {
				break
			}
		}
	}

	c.Extra("tier_max_batch_len", maxLen)
	c.Extra("alphabet_letters", A)
	c.Extra("findings_total", h.viol)
	c.Extra("finding_classes", h.counts)
	c.Extra("finding_class_first_example", h.first)
	if os.Getenv("VOUT") == "" {
		var keys []string
		for k := range h.counts {
			keys = append(keys, k)
		}
		sort.Strings(keys)
		for _, k := range keys {
			t.Logf("CLASS %-70s n=%d\n    first: %s", k, h.counts[k], h.first[k])
		}
	}
	// Checkpoint: a request that makes a per-call goroutine of the WebSocket server panic kills
	// this process (that is C10's subject and is isolated there); what the HTTP phases found
	// must not be lost with it, so the report is written once before the WebSocket phase.
	c.Write(t, false, "checkpoint before the WebSocket phase (the process died during that phase if this is the final report)")

	// ---- 5. single elements as WebSocket frames ----
	ts := httptest.NewServer(srv)
	d := &wsDrv{h: h, url: "ws" + strings.TrimPrefix(ts.URL, "http")}
	d.dial()
	wsN := 0
	for _, l := range alphabet {
		idset := []string{""}
		if l.needID {
			idset = ids
		}
		for _, id := range idset {
			for _, ws := range []int{0, 3} {
				wsN++
				frame := layout([]string{l.build(id, fmt.Sprintf("w%d", wsN))}, false, ws)
				d.eval("ws/"+l.kind, fmt.Sprintf("ws/%s/id=%s/ws%d", l.name, id, ws), []byte(frame))
			}
		}
	}
	_ = d.conn.Close()
	ts.Close()

	c.Write(t, true, fmt.Sprintf("alphabet of %d concrete request elements (15 kinds of DESIGN C09 with their variants); every single element x 9 ids "+
		"{0,1,-1,1.5,2^53,1e2,\"\",\"a\",\"1\"} x 4 whitespace layouts; 13 degenerate bodies; every proper prefix of 3 valid bodies; 8 valid bodies followed by extra bytes; "+
		"every batch of length 1..%d over the alphabet x 4 whitespace layouts (length 1: every id; length 2: 9 id rotations; length 3: one rotation chosen by the letter indices so every letter "+
		"meets every id at every position); each body through ServeHTTP and HandleRequest; every single element x id x 2 layouts as a WebSocket frame delimited by sentinel calls; "+
		"each reply compared with the reference responder refRPC (strict single-JSON-value parse, id type+value, result xor error, the four named codes, per-token handler execution counts). "+
		"Of each (scenario, clause, element-class set) the %d simplest violating cases are listed, all are counted in finding_classes", A, maxLen, perClassKept))
}
