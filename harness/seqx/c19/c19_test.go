// C19 — permission checks: a method runs iff the caller holds its permission.
// Complete enumeration over a 3-permission universe (DESIGN.md §3 C19).
package c19

import (
	"context"
	"fmt"
	"net/http"
	"net/http/httptest"
	"sort"
	"strings"
	"testing"

	"github.com/filecoin-project/go-jsonrpc/auth"

	"verifharness/seqx/rep"
)

var universe = []auth.Permission{"r", "w", "a"}

func subset(mask int) []auth.Permission {
	s := []auth.Permission{}
	for i, p := range universe {
		if mask&(1<<i) != 0 {
			s = append(s, p)
		}
	}
	return s
}

type impl struct {
	calls map[string]int
}

func (i *impl) R0(ctx context.Context) error               { i.calls["R0"]++; return nil }
func (i *impl) W0(ctx context.Context) error               { i.calls["W0"]++; return nil }
func (i *impl) A0(ctx context.Context) error               { i.calls["A0"]++; return nil }
func (i *impl) R1(ctx context.Context, x int) (int, error) { i.calls["R1"]++; return x + 1000, nil }
func (i *impl) W1(ctx context.Context, x int) (int, error) { i.calls["W1"]++; return x + 1000, nil }
func (i *impl) A1(ctx context.Context, x int) (int, error) { i.calls["A1"]++; return x + 1000, nil }

type proxy struct {
	R0 func(ctx context.Context) error               `perm:"r"`
	W0 func(ctx context.Context) error               `perm:"w"`
	A0 func(ctx context.Context) error               `perm:"a"`
	R1 func(ctx context.Context, x int) (int, error) `perm:"r"`
	W1 func(ctx context.Context, x int) (int, error) `perm:"w"`
	A1 func(ctx context.Context, x int) (int, error) `perm:"a"`
}

func has(set []auth.Permission, p auth.Permission) bool {
	for _, q := range set {
		if q == p {
			return true
		}
	}
	return false
}

func TestC19(t *testing.T) {
	c := rep.New("C19")

	// ---- part 1: PermissionedProxy, complete product ----
	type attach struct {
		name string
		ctx  func(caller []auth.Permission) context.Context
		eff  func(caller, def []auth.Permission) []auth.Permission
	}
	attaches := []attach{
		{"not-attached", func([]auth.Permission) context.Context { return context.Background() },
			func(_, def []auth.Permission) []auth.Permission { return def }},
		{"attached", func(p []auth.Permission) context.Context { return auth.WithPerm(context.Background(), p) },
			func(caller, _ []auth.Permission) []auth.Permission { return caller }},
		{"attached-nil-slice", func(p []auth.Permission) context.Context {
			if len(p) == 0 {
				return auth.WithPerm(context.Background(), nil)
			}
			return auth.WithPerm(context.Background(), p)
		}, func(caller, _ []auth.Permission) []auth.Permission { return caller }},
	}
	methods := []struct {
		name string
		perm auth.Permission
		val  bool
	}{{"R0", "r", false}, {"W0", "w", false}, {"A0", "a", false}, {"R1", "r", true}, {"W1", "w", true}, {"A1", "a", true}}

	for defMask := 0; defMask < 8; defMask++ {
		def := subset(defMask)
		im := &impl{calls: map[string]int{}}
		var px proxy
		auth.PermissionedProxy(universe, def, im, &px)
		for callerMask := 0; callerMask < 8; callerMask++ {
			caller := subset(callerMask)
			for _, at := range attaches {
				ctx := at.ctx(caller)
				eff := at.eff(caller, def)
				for _, m := range methods {
					key := fmt.Sprintf("proxy/def=%v/caller=%v/%s/%s", def, caller, at.name, m.name)
					before := im.calls[m.name]
					var err error
					var val int
					switch m.name {
					case "R0":
						err = px.R0(ctx)
					case "W0":
						err = px.W0(ctx)
					case "A0":
						err = px.A0(ctx)
					case "R1":
						val, err = px.R1(ctx, 7)
					case "W1":
						val, err = px.W1(ctx, 7)
					case "A1":
						val, err = px.A1(ctx, 7)
					}
					ran := im.calls[m.name] - before
					want := has(eff, m.perm)
					c.Case(key, true, "proxy")
					c.Sample(map[string]interface{}{"default": def, "caller": caller, "attach": at.name, "method": m.name, "expect_run": want})
					if want {
						if ran != 1 || err != nil || (m.val && val != 1007) {
							c.Violate("proxy", key, "%s: caller holds %q but ran=%d err=%v val=%d", key, m.perm, ran, err, val)
						}
					} else {
						if ran != 0 {
							c.Violate("proxy", key, "%s: implementation invoked %d times without permission %q", key, ran, m.perm)
						}
						if err == nil {
							c.Violate("proxy", key, "%s: no permission error returned", key)
						} else if !strings.Contains(err.Error(), string(m.perm)) || !strings.Contains(err.Error(), "permission") {
							c.Violate("proxy", key, "%s: error %q does not name the missing permission", key, err)
						}
						if val != 0 {
							c.Violate("proxy", key, "%s: non-zero value %d returned with the permission error", key, val)
						}
					}
					// HasPerm itself, probed for all three permissions
					for _, q := range universe {
						if got := auth.HasPerm(ctx, def, q); got != has(eff, q) {
							c.Violate("proxy", key, "%s: HasPerm(%q)=%v want %v", key, q, got, has(eff, q))
						}
					}
				}
			}
		}
	}

	// construction-time validation
	for _, tc := range []struct {
		name string
		out  interface{}
	}{
		{"missing-tag", &struct {
			R0 func(ctx context.Context) error
		}{}},
		{"unknown-tag", &struct {
			R0 func(ctx context.Context) error `perm:"x"`
		}{}},
	} {
		func() {
			defer func() {
				c.Case("ctor/"+tc.name, true, "ctor")
				if recover() == nil {
					c.Violate("ctor", tc.name, "PermissionedProxy accepted a struct with %s", tc.name)
				}
			}()
			auth.PermissionedProxy(universe, nil, &impl{calls: map[string]int{}}, tc.out)
		}()
	}

	// ---- part 2: HTTP auth handler ----
	headers := []struct {
		name, val string
		token     string // token the verifier must see ("" = none / malformed)
		malformed bool
	}{
		{"absent", "", "", false},
		{"bearer-t", "Bearer t", "t", false},
		{"bearer-empty", "Bearer ", "", false}, // empty token is passed to the verifier
		{"lowercase-bearer", "bearer t", "", true},
		{"token-prefix", "Token t", "", true},
		{"bare", "t", "", true},
		{"bearer-nospace", "Bearert", "", true},
	}
	queries := []struct{ name, val string }{{"absent", ""}, {"t2", "t2"}}
	type verdict struct {
		name  string
		perms []auth.Permission
		err   error
	}
	var verdicts []verdict
	for m := 0; m < 8; m++ {
		verdicts = append(verdicts, verdict{fmt.Sprintf("set%v", subset(m)), subset(m), nil})
	}
	verdicts = append(verdicts, verdict{"nil-set", nil, nil}, verdict{"error", nil, fmt.Errorf("bad token")})
	def := []auth.Permission{"r"}
	for _, h := range headers {
		for _, q := range queries {
			for _, v := range verdicts {
				key := fmt.Sprintf("http/hdr=%s/query=%s/verify=%s", h.name, q.name, v.name)
				var sawToken []string
				nextRan := 0
				var seen []auth.Permission
				var attached bool
				hnd := &auth.Handler{
					Verify: func(ctx context.Context, token string) ([]auth.Permission, error) {
						sawToken = append(sawToken, token)
						return v.perms, v.err
					},
					Next: func(w http.ResponseWriter, r *http.Request) {
						nextRan++
						seen = nil
						for _, p := range universe {
							// with an empty default set HasPerm reveals exactly what is attached
							if auth.HasPerm(r.Context(), nil, p) {
								seen = append(seen, p)
							}
						}
						// attached at all? distinguish via defaults: if nothing is attached the defaults show
						attached = !(auth.HasPerm(r.Context(), def, "r") && !auth.HasPerm(r.Context(), nil, "r"))
						w.WriteHeader(204)
					},
				}
				url := "http://x/rpc"
				if q.val != "" {
					url += "?token=" + q.val
				}
				req := httptest.NewRequest("POST", url, nil)
				if h.val != "" {
					req.Header.Set("Authorization", h.val)
				}
				rec := httptest.NewRecorder()
				hnd.ServeHTTP(rec, req)
				c.Case(key, true, "http")
				c.Sample(map[string]interface{}{"authorization": h.val, "query_token": q.val, "verifier": v.name})

				// reference model
				haveToken, tok, malformed := false, "", false
				if h.val != "" { // header wins over query
					if h.malformed {
						malformed = true
					} else {
						haveToken, tok = true, h.token
					}
				} else if q.val != "" {
					haveToken, tok = true, q.val
				}
				switch {
				case malformed:
					if rec.Code != 401 || nextRan != 0 {
						c.Violate("http", key, "%s: malformed authorization: status=%d next ran %d times (want 401, 0)", key, rec.Code, nextRan)
					}
					if len(sawToken) != 0 {
						c.Violate("http", key, "%s: verifier consulted for a malformed header: %q", key, sawToken)
					}
				case !haveToken:
					if nextRan != 1 || rec.Code != 204 {
						c.Violate("http", key, "%s: token-less request: status=%d next ran %d times", key, rec.Code, nextRan)
					}
					if len(sawToken) != 0 {
						c.Violate("http", key, "%s: verifier consulted without a token", key)
					}
					if attached || len(seen) != 0 {
						c.Violate("http", key, "%s: permissions %v attached to a token-less request", key, seen)
					}
				default:
					if len(sawToken) != 1 || sawToken[0] != tok {
						c.Violate("http", key, "%s: verifier saw %q, want exactly [%q]", key, sawToken, tok)
					}
					if v.err != nil {
						if rec.Code != 401 || nextRan != 0 {
							c.Violate("http", key, "%s: rejected token: status=%d next ran %d times (want 401, 0)", key, rec.Code, nextRan)
						}
					} else {
						if nextRan != 1 || rec.Code != 204 {
							c.Violate("http", key, "%s: accepted token: status=%d next ran %d times", key, rec.Code, nextRan)
						}
						want := append([]auth.Permission{}, v.perms...)
						sort.Slice(want, func(i, j int) bool { return want[i] < want[j] })
						got := append([]auth.Permission{}, seen...)
						sort.Slice(got, func(i, j int) bool { return got[i] < got[j] })
						if fmt.Sprint(want) != fmt.Sprint(got) {
							c.Violate("http", key, "%s: Next saw permissions %v, verifier returned %v", key, got, want)
						}
						if !attached && v.perms != nil {
							c.Violate("http", key, "%s: verifier result not attached (defaults still visible)", key)
						}
					}
				}
			}
		}
	}
	c.Write(t, true, "complete product: 8 default sets x 8 caller sets x 3 attachment modes x 6 methods (3 permissions x 2 shapes) through PermissionedProxy, "+
		"2 construction-time cases, 7 Authorization header forms x 2 query forms x 10 verifier outcomes through auth.Handler; each case is distinct and "+
		"compared with a set-membership reference model")
}
