// C10 — no peer input can crash or wedge the process; oversize HTTP bodies are refused
// exactly at the configured boundary (DESIGN.md §3 C10, expected finding §5-F1).
//
// A hostile frame that hits the defect kills the whole process (panic in a library
// goroutine), so every input is executed in a re-executed CHILD process of this test binary
// (TestC10Child). The child journals "B <idx>" before it sends input idx and "E <idx> ..."
// after the verdict; the parent (TestC10) maps a dead child to the journalled input and
// believes a violation only when it reproduces with that input ALONE in a fresh child.
package c10

import (
	"bytes"
	"context"
	"encoding/base64"
	"encoding/json"
	"errors"
	"fmt"
	"io"
	"net"
	"net/http"
	"net/http/httptest"
	"os"
	"os/exec"
	"path/filepath"
	"regexp"
	"runtime"
	"sort"
	"strconv"
	"strings"
	"sync"
	"sync/atomic"
	"testing"
	"time"

	jsonrpc "github.com/filecoin-project/go-jsonrpc"
	"github.com/gorilla/websocket"

	"verifharness/seqx/rep"
)

// ---------------------------------------------------------------------------------------
// inputs
// ---------------------------------------------------------------------------------------

const (
	envChild   = "VC10_CHILD"
	envInputs  = "VC10_INPUTS"
	envStart   = "VC10_START"
	envEnd     = "VC10_END"
	envJournal = "VC10_JOURNAL"

	mtRaw    = 0 // bytes written straight onto the TCP stream (hand-built WebSocket frames)
	mtText   = websocket.TextMessage
	mtBinary = websocket.BinaryMessage

	connUsable   = "usable"   // well-formed WebSocket message(s): the connection must stay usable
	connMayClose = "mayclose" // WebSocket-protocol-level violation: the connection may be closed

	wsCancel = "xrpc.cancel"
	chValue  = "xrpc.ch.val"
	chClose  = "xrpc.ch.close"

	stepTimeout   = 20 * time.Second  // every wait inside a child; hitting it is a verdict, not a measurement
	batchTimeout  = 240 * time.Second // one child working through a chunk
	singleTimeout = 60 * time.Second  // one child re-running one input in isolation
	chunkSize     = 100

	sibKey  = 100000 // key of the well-behaved client's parked call
	subChID = 1      // channel id the fake server hands to the client under attack

	// tgtNoHandler: a second client under attack, created WITHOUT any WithClientHandler. Call
	// frames from the (fake) server must be dropped by it, not crash it.
	tgtNoHandler = "client-nohandler"
	// tgtReconn: a client with a reverse handler and reconnection enabled whose first connection
	// was dropped by the peer; the hostile input arrives on the connection it re-established
	tgtReconn = "client-reconnected"
)

type msg struct {
	T int    `json:"t"`
	D []byte `json:"d"`
}

type input struct {
	Target string `json:"target"` // "server" | "client" | "client-nohandler": who is under attack
	Kind   string `json:"kind"`
	Conn   string `json:"conn"`
	Msgs   []msg  `json:"msgs"`
	Note   string `json:"note,omitempty"`
}

func (in input) key() string {
	var b strings.Builder
	b.WriteString(in.Target + "|" + in.Conn)
	for _, m := range in.Msgs {
		fmt.Fprintf(&b, "|%d:%d:", m.T, len(m.D))
		b.Write(m.D)
	}
	return b.String()
}

func (in input) describe() string {
	var parts []string
	for _, m := range in.Msgs {
		k := "text"
		switch m.T {
		case mtBinary:
			k = "binary"
		case mtRaw:
			k = "raw-ws-bytes"
		}
		if len(m.D) > 240 {
			parts = append(parts, fmt.Sprintf("%s %q...%q (%d bytes)", k, m.D[:120], m.D[len(m.D)-24:], len(m.D)))
		} else {
			parts = append(parts, fmt.Sprintf("%s %q", k, m.D))
		}
	}
	s := strings.Join(parts, " , ")
	if in.Note != "" {
		s += " (" + in.Note + ")"
	}
	return s
}

// mframe mirrors what a JSON-RPC 2.0 frame may carry; it is the reference model's reading of
// a hostile frame (used only to decide which *legitimate* effects a frame may have).
type mframe struct {
	Jsonrpc string            `json:"jsonrpc"`
	ID      interface{}       `json:"id,omitempty"`
	Meta    map[string]string `json:"meta,omitempty"`
	Method  string            `json:"method,omitempty"`
	Params  json.RawMessage   `json:"params,omitempty"`
	Result  json.RawMessage   `json:"result,omitempty"`
	Error   *struct {
		Code    int             `json:"code"`
		Message string          `json:"message"`
		Meta    json.RawMessage `json:"meta,omitempty"`
		Data    interface{}     `json:"data,omitempty"`
	} `json:"error,omitempty"`
}

var reMethod = regexp.MustCompile(`xrpc\.[a-z.]*[a-z]`)

// methodsOf names the method(s) of an input for grouping.
func methodsOf(in input) string {
	var ms []string
	for _, m := range in.Msgs {
		if m.T == mtRaw {
			ms = append(ms, "(ws-level)")
			continue
		}
		var f mframe
		if err := json.Unmarshal(m.D, &f); err == nil {
			if f.Method == "" {
				ms = append(ms, "(response)")
			} else if len(f.Method) > 40 {
				ms = append(ms, f.Method[:40]+"...")
			} else {
				ms = append(ms, f.Method)
			}
			continue
		}
		if x := reMethod.Find(m.D); x != nil {
			ms = append(ms, "(malformed:"+string(x)+")")
		} else {
			ms = append(ms, "(garbage)")
		}
	}
	return strings.Join(ms, "+")
}

type names struct{ call, hold, nope string }

func namesFor(target string) names {
	if target == "server" {
		return names{"T.Echo", "T.Hold", "T.Nope"}
	}
	return names{"R.Ping", "R.Wait", "R.Nope"}
}

// mkFrame builds a frame; id/method/params "" mean "member absent", extra is appended verbatim.
func mkFrame(id, method, params, extra string) []byte {
	s := `{"jsonrpc":"2.0"`
	if id != "" {
		s += `,"id":` + id
	}
	if method != "" {
		s += `,"method":"` + method + `"`
	}
	if params != "" {
		s += `,"params":` + params
	}
	return []byte(s + extra + "}")
}

var xs = []string{"1", "-1", "1.5", "1e30", `"s"`, "true", "null", "[1]", `{"a":1}`}
var idSet = []string{"", "null", "1", `"s"`, "true", "[1]", "{}"}

func paramShapes() []string {
	p := []string{"", "null", "[]"}
	for _, x := range xs {
		p = append(p, "["+x+"]")
	}
	for _, x := range xs {
		for _, y := range xs {
			p = append(p, "["+x+","+y+"]")
		}
	}
	return append(p, "{}")
}

// productFrames: method x params x id, plus result/error members for responses.
func productFrames(n names) [][]byte {
	var out [][]byte
	for _, m := range []string{wsCancel, chValue, chClose, "", n.nope, n.call} {
		for _, p := range paramShapes() {
			for _, id := range idSet {
				out = append(out, mkFrame(id, m, p, ""))
			}
		}
	}
	results := []string{"", "null", "1", `"s"`, "[1]", `{"a":1}`, "true", "1e30"}
	errs := []string{"", "null", `{"code":1,"message":"m"}`, `{"code":"x"}`, `"str"`, "[1]", `{"code":1e30,"message":1}`,
		`{"code":-32000,"message":"m","data":{"a":[1]},"meta":{"k":1}}`}
	for _, r := range results {
		for _, e := range errs {
			for _, id := range idSet {
				extra := ""
				if r != "" {
					extra += `,"result":` + r
				}
				if e != "" {
					extra += `,"error":` + e
				}
				out = append(out, mkFrame(id, "", "", extra))
			}
		}
	}
	return out
}

// extraFrames: meta members, further id shapes, other spellings of the built-in methods.
func extraFrames(n names) [][]byte {
	var out [][]byte
	sc := make([]byte, 29)
	sc[2], sc[18], sc[19], sc[27], sc[28] = 7, 1, 9, 2, 1
	metas := []string{`{"SpanContext":"!!!"}`, `{"SpanContext":"AAAA"}`, `{"SpanContext":"` + base64.StdEncoding.EncodeToString(sc) + `"}`,
		`{"SpanContext":""}`, `{}`, `null`, `"str"`, `{"k":1}`, `[1]`, `{"SpanContext":{"a":1}}`}
	for _, m := range metas {
		for _, id := range []string{"", "1"} {
			out = append(out, mkFrame(id, n.call, "[1]", `,"meta":`+m))
		}
	}
	for _, id := range []string{"1.5", "-1", "1e30", "0", `""`, `"\u0000"`, "9007199254740993", "1e400", "-0", "1E2"} {
		out = append(out, mkFrame(id, n.call, "[1]", ""))
		out = append(out, mkFrame(id, wsCancel, "[1]", ""))
		out = append(out, mkFrame(id, "", "", `,"result":1`))
	}
	for _, m := range []string{wsCancel, chValue, chClose} {
		for _, p := range []string{"[ ]", " null ", "[[]]", "[{}]", "[1 ]", `[""]`, "[0]", "[18446744073709551615]", "[18446744073709551616]",
			"[1,2,3]", "[1,[1],{}]", `"[]"`, "1", "true", `[1,"` + strings.Repeat("v", 4096) + `"]`} {
			out = append(out, mkFrame("", m, p, ""))
		}
		esc := `\u0078` + m[1:] // the same method name, spelled with an escape
		out = append(out, mkFrame("", esc, "[]", ""), mkFrame("", esc, "[1]", ""), mkFrame("1", esc, "[1,5]", ""))
		out = append(out, []byte(`{"JSONRPC":"2.0","METHOD":"`+m+`","PARAMS":[]}`), []byte(`{"JSONRPC":"2.0","METHOD":"`+m+`","PARAMS":[1,5]}`))
		out = append(out, []byte(`{"jsonrpc":"2.0","method":"`+n.call+`","method":"`+m+`","params":[]}`))
		out = append(out, []byte(`{"jsonrpc":"2.0","method":"`+m+`","params":[1,5],"params":[]}`))
	}
	return out
}

func garbageFrames(n names) [][]byte {
	call := string(mkFrame("1", n.call, "[1]", ""))
	g := []string{"", " ", "\n", "{", "}", "[", "]", "[]", "{}", "null", "true", "0", "-", `"s"`, `"`, `\`, "[{}]", "[1,2]",
		"[" + call + "]", "[" + call + "," + call + "]", call + call, call + " x", "\xef\xbb\xbf" + call, "\x00", "\xff\xfe\xfd", "\xff\x00",
		"\x00" + call, call[:len(call)-1] + "\x00}", strings.Repeat("[", 20000),
		`{"jsonrpc":"2.0","id":1,"method":"` + n.call + `","params":` + strings.Repeat("[", 20000) + strings.Repeat("]", 20000) + `}`,
		`{"jsonrpc":"2.0","id":1,"method":"` + n.call + `","params":[` + strings.Repeat("1,", 100000) + `1]}`,
		strings.Repeat(" ", 1<<20),
		`{"jsonrpc":"2.0","id":1,"method":"` + strings.Repeat("A", 1<<20) + `","params":[1]}`,
		`{"jsonrpc":"2.0","id":"` + strings.Repeat("i", 1<<16) + `","method":"` + n.call + `","params":[1]}`,
		`{"jsonrpc":2.0,"id":1,"method":"` + n.call + `","params":[1]}`,
		`{"jsonrpc":"2.0","id":1,"method":1,"params":[1]}`,
		`{"jsonrpc":"2.0","id":1,"method":null,"params":[1]}`,
		`{"jsonrpc":"2.0","id":1,"method":["xrpc.cancel"],"params":[]}`,
		`{"JSONRPC":"2.0","ID":1,"METHOD":"` + n.call + `","PARAMS":[1]}`,
		`{"jsonrpc":"2.0","id":1,"id":[1],"method":"` + n.call + `","params":[1]}`,
		`{"jsonrpc":"2.0","method":"xrpc.unknown","params":[]}`,
		`{"jsonrpc":"2.0","id":1,"method":"xrpc.","params":[]}`,
		`{"jsonrpc":"2.0","id":1,"method":"","params":[1]}`,
		`{"jsonrpc":"1.0","id":1,"method":"` + n.call + `","params":[1]}`,
		`{"id":1,"method":"` + n.call + `","params":[1]}`,
		`{"jsonrpc":"2.0","id":1,"method":"` + n.call + `","params":"[1]"}`,
		`{"jsonrpc":"2.0","id":1,"method":"` + n.call + `","params":1}`,
		`{"jsonrpc":"2.0","id":1,"method":"` + n.call + `","params":true}`,
	}
	out := make([][]byte, len(g))
	for i, s := range g {
		out[i] = []byte(s)
	}
	return out
}

// seedFrames: the 6 frames whose byte-level mutations are enumerated.
func seedFrames(n names) [][]byte {
	return [][]byte{
		mkFrame("1", n.call, "[1]", ""),
		mkFrame("", wsCancel, "[1]", ""),
		mkFrame("", chValue, "[1,5]", ""),
		mkFrame("", chClose, "[1]", ""),
		mkFrame("1", "", "", `,"result":1`),
		mkFrame(`"s"`, "", "", `,"error":{"code":1,"message":"m"}`),
	}
}

// f1Frames: the frames DESIGN §5-F1 names.
func f1Frames() [][]byte {
	return [][]byte{
		mkFrame("", wsCancel, "[]", ""), mkFrame("", wsCancel, "[[1]]", ""),
		mkFrame("", chValue, "[1]", ""), mkFrame("", chValue, "[]", ""), mkFrame("", chClose, "[]", ""),
	}
}

// alphabet: the 40-frame reduced alphabet for sequences.
func alphabet(n names) [][]byte {
	a := [][]byte{
		mkFrame("1", n.call, "[1]", ""), mkFrame(`"s"`, n.call, "[1]", ""), mkFrame("", n.call, "[1]", ""), mkFrame("1", n.call, "[]", ""),
		mkFrame("null", n.call, "[1]", ""), mkFrame("true", n.call, "[1]", ""), mkFrame("7", n.hold, "[7]", ""), mkFrame("1", n.nope, "", ""),
		mkFrame("", n.nope, "", ""),
		mkFrame("", wsCancel, "[7]", ""), mkFrame("", wsCancel, "[1]", ""), mkFrame("", wsCancel, `["s"]`, ""), mkFrame("", wsCancel, "[]", ""),
		mkFrame("", wsCancel, "[[1]]", ""), mkFrame("", wsCancel, "null", ""), mkFrame("", wsCancel, "", ""), mkFrame("", wsCancel, "{}", ""),
		mkFrame("", wsCancel, "[null]", ""), mkFrame("1", wsCancel, "[1]", ""),
		mkFrame("", chValue, "[1,5]", ""), mkFrame("", chValue, "[1]", ""), mkFrame("", chValue, "[]", ""), mkFrame("", chValue, `[1,"s"]`, ""),
		mkFrame("", chValue, "", ""), mkFrame("", chValue, "[2,5]", ""), mkFrame("", chValue, `["s",5]`, ""),
		mkFrame("", chClose, "[1]", ""), mkFrame("", chClose, "[]", ""), mkFrame("", chClose, "[2]", ""), mkFrame("", chClose, "", ""),
		mkFrame("1", chClose, "[1]", ""),
		mkFrame("1", "", "", `,"result":1`), mkFrame("2", "", "", `,"result":5`), mkFrame(`"s"`, "", "", `,"error":{"code":1,"message":"m"}`),
		mkFrame("null", "", "", `,"result":null`), mkFrame("", "", "", `,"result":1`),
		[]byte("{"), []byte(""), []byte("[]"), []byte("\xff\x00"),
	}
	if len(a) != 40 {
		panic(fmt.Sprintf("alphabet has %d frames", len(a)))
	}
	return a
}

var substitutes = []byte{'"', '{', '[', ',', '0', '\\', 0x00, 0xFF}

type mutation struct {
	data []byte
	note string
}

func mutationsOf(seed []byte) []mutation {
	var out []mutation
	for i := 0; i < len(seed); i++ {
		out = append(out, mutation{append([]byte{}, seed[:i]...), fmt.Sprintf("truncated to %d bytes", i)})
	}
	for i := 0; i < len(seed); i++ {
		d := append(append([]byte{}, seed[:i]...), seed[i+1:]...)
		out = append(out, mutation{d, fmt.Sprintf("byte %d deleted", i)})
	}
	for i := 0; i < len(seed); i++ {
		for _, s := range substitutes {
			if seed[i] == s {
				continue
			}
			d := append([]byte{}, seed...)
			d[i] = s
			out = append(out, mutation{d, fmt.Sprintf("byte %d replaced by 0x%02x", i, s)})
		}
	}
	return out
}

// wsf builds one WebSocket frame by hand.
func wsf(fin bool, rsv, op byte, masked bool, payload []byte) []byte {
	b0 := op | rsv<<4
	if fin {
		b0 |= 0x80
	}
	out := []byte{b0}
	mb := byte(0)
	if masked {
		mb = 0x80
	}
	n := len(payload)
	switch {
	case n < 126:
		out = append(out, mb|byte(n))
	case n < 65536:
		out = append(out, mb|126, byte(n>>8), byte(n))
	default:
		out = append(out, mb|127, 0, 0, 0, 0, byte(n>>24), byte(n>>16), byte(n>>8), byte(n))
	}
	if masked {
		key := []byte{0x11, 0x22, 0x33, 0x44}
		out = append(out, key...)
		for i, c := range payload {
			out = append(out, c^key[i%4])
		}
	} else {
		out = append(out, payload...)
	}
	return out
}

type rawCase struct {
	note string
	conn string
	data []byte
}

// wsRawCases: WebSocket-level inputs. m is the mask bit the victim expects from its peer
// (client->server frames are masked, server->client frames are not).
func wsRawCases(n names, m bool) []rawCase {
	call := mkFrame("1", n.call, "[1]", "")
	h := len(call) / 2
	cat := func(bs ...[]byte) []byte { return bytes.Join(bs, nil) }
	// hdr builds a frame from an explicit header (first byte, length code, extended length
	// bytes), the mask key the direction requires, and the bytes actually sent as payload.
	hdr := func(b0, lenCode byte, ext []byte, sent []byte) []byte {
		out := []byte{b0, lenCode}
		if m {
			out[1] |= 0x80
		}
		out = append(out, ext...)
		if m {
			out = append(out, 0, 0, 0, 0) // zero mask key: payload bytes go out as they are
		}
		return append(out, sent...)
	}
	return []rawCase{
		{"ping with payload", connUsable, wsf(true, 0, 9, m, []byte("hi"))},
		{"empty ping", connUsable, wsf(true, 0, 9, m, nil)},
		{"unsolicited pong", connUsable, wsf(true, 0, 10, m, []byte("x"))},
		{"valid call fragmented in two", connUsable, cat(wsf(false, 0, 1, m, call[:h]), wsf(true, 0, 0, m, call[h:]))},
		{"valid call fragmented with a ping in between", connUsable, cat(wsf(false, 0, 1, m, call[:h]), wsf(true, 0, 9, m, []byte("p")), wsf(true, 0, 0, m, call[h:]))},
		{"valid call in three fragments, two of them empty", connUsable, cat(wsf(false, 0, 1, m, nil), wsf(false, 0, 0, m, call), wsf(true, 0, 0, m, nil))},
		{"valid call as fragmented binary message", connUsable, cat(wsf(false, 0, 2, m, call[:h]), wsf(true, 0, 0, m, call[h:]))},
		{"empty text frame", connUsable, wsf(true, 0, 1, m, nil)},
		{"empty binary frame", connUsable, wsf(true, 0, 2, m, nil)},
		{"one byte per fragment", connUsable, func() []byte {
			var b []byte
			for i := range call {
				op := byte(0)
				if i == 0 {
					op = 1
				}
				b = append(b, wsf(i == len(call)-1, 0, op, m, call[i:i+1])...)
			}
			return b
		}()},

		{"wrong mask flag", connMayClose, wsf(true, 0, 1, !m, call)},
		{"RSV1 set without extension", connMayClose, wsf(true, 4, 1, m, call)},
		{"RSV2+RSV3 set", connMayClose, wsf(true, 3, 1, m, call)},
		{"reserved data opcode 3", connMayClose, wsf(true, 0, 3, m, call)},
		{"reserved control opcode 0xB", connMayClose, wsf(true, 0, 0xB, m, nil)},
		{"fragmented ping", connMayClose, wsf(false, 0, 9, m, []byte("p"))},
		{"ping with 126-byte payload", connMayClose, wsf(true, 0, 9, m, bytes.Repeat([]byte("p"), 126))},
		{"continuation without a started message", connMayClose, wsf(true, 0, 0, m, call)},
		{"new text frame inside a fragmented message", connMayClose, cat(wsf(false, 0, 1, m, call[:h]), wsf(true, 0, 1, m, call))},
		{"close frame, empty", connMayClose, wsf(true, 0, 8, m, nil)},
		{"close frame, 1-byte payload", connMayClose, wsf(true, 0, 8, m, []byte{3})},
		{"close frame 1000 with reason", connMayClose, wsf(true, 0, 8, m, []byte{3, 0xE8, 'b', 'y', 'e'})},
		{"close frame with invalid code 999", connMayClose, wsf(true, 0, 8, m, []byte{3, 0xE7})},
		{"close frame with invalid UTF-8 reason", connMayClose, wsf(true, 0, 8, m, []byte{3, 0xE8, 0xFF, 0xFE})},
		{"close frame then a valid call", connMayClose, cat(wsf(true, 0, 8, m, []byte{3, 0xE8}), wsf(true, 0, 1, m, call))},
		{"64-bit length with the top bit set", connMayClose, hdr(0x81, 127, []byte{0x80, 0, 0, 0, 0, 0, 0, 1}, []byte{'{'})},
		{"non-minimal 16-bit length", connMayClose, hdr(0x81, 126, []byte{0, 2}, []byte("{}"))},
		{"header cut after the first byte", connMayClose, []byte{0x81}},
		{"declared length 2^40, 5 bytes sent", connMayClose, hdr(0x81, 127, []byte{0, 0, 1, 0, 0, 0, 0, 0}, []byte(`{"jso`))},
		{"declared length 1000, 10 bytes sent", connMayClose, hdr(0x81, 126, []byte{3, 0xE8}, []byte(`{"jsonrpc"`))},
		{"plain HTTP request instead of a frame", connMayClose, []byte("GET / HTTP/1.1\r\nHost: x\r\n\r\n")},
		{"512 zero bytes", connMayClose, make([]byte, 512)},
		{"512 0xFF bytes", connMayClose, bytes.Repeat([]byte{0xFF}, 512)},
	}
}

func enumerate(tier string) []input {
	var out []input
	seen := map[string]bool{}
	add := func(in input) {
		k := in.key()
		if seen[k] {
			return
		}
		seen[k] = true
		out = append(out, in)
	}
	for _, target := range []string{"server", "client", tgtNoHandler} {
		n := namesFor(target)
		for _, f := range productFrames(n) {
			add(input{Target: target, Kind: "single", Conn: connUsable, Msgs: []msg{{mtText, f}}})
		}
		for _, f := range extraFrames(n) {
			add(input{Target: target, Kind: "single-extra", Conn: connUsable, Msgs: []msg{{mtText, f}}})
		}
		for _, f := range garbageFrames(n) {
			add(input{Target: target, Kind: "garbage", Conn: connUsable, Msgs: []msg{{mtText, f}}})
		}
		var bin [][]byte
		bin = append(bin, seedFrames(n)...)
		bin = append(bin, f1Frames()...)
		bin = append(bin, garbageFrames(n)...)
		for _, f := range bin {
			add(input{Target: target, Kind: "binary", Conn: connUsable, Msgs: []msg{{mtBinary, f}}})
		}
		for _, rc := range wsRawCases(n, target == "server") {
			add(input{Target: target, Kind: "ws-level", Conn: rc.conn, Msgs: []msg{{mtRaw, rc.data}}, Note: rc.note})
		}
		if target == "client" {
			fs := append(append([][]byte{}, seedFrames(n)...), extraFrames(n)...)
			if tier == "thorough" {
				fs = append(fs, productFrames(n)...)
			}
			for _, f := range fs {
				add(input{Target: tgtReconn, Kind: "single-after-reconnect", Conn: connUsable, Msgs: []msg{{mtText, f}}})
			}
		}
		if tier != "thorough" {
			continue
		}
		al := alphabet(n)
		for _, a := range al {
			add(input{Target: target, Kind: "seq", Conn: connUsable, Msgs: []msg{{mtText, a}}})
		}
		for _, a := range al {
			for _, b := range al {
				add(input{Target: target, Kind: "seq", Conn: connUsable, Msgs: []msg{{mtText, a}, {mtText, b}}})
			}
		}
		for si, s := range seedFrames(n) {
			for _, mu := range mutationsOf(s) {
				add(input{Target: target, Kind: "mutation", Conn: connUsable, Msgs: []msg{{mtText, mu.data}}, Note: fmt.Sprintf("seed %d, %s", si, mu.note)})
			}
		}
	}
	return out
}

// ---------------------------------------------------------------------------------------
// child: shared helpers
// ---------------------------------------------------------------------------------------

func isTimeout(err error) bool {
	var ne net.Error
	return errors.As(err, &ne) && ne.Timeout()
}

func writeMsg(c *websocket.Conn, m msg) error {
	_ = c.SetWriteDeadline(time.Now().Add(stepTimeout))
	if m.T == mtRaw {
		_, err := c.UnderlyingConn().Write(m.D)
		return err
	}
	return c.WriteMessage(m.T, m.D)
}

func writeText(c *websocket.Conn, s string) error {
	return writeMsg(c, msg{mtText, []byte(s)})
}

// probe sends a valid call with a unique string id and reads until its response.
func probe(c *websocket.Conn, id, method string, n int) error {
	if err := writeText(c, fmt.Sprintf(`{"jsonrpc":"2.0","id":%q,"method":%q,"params":[%d]}`, id, method, n)); err != nil {
		return fmt.Errorf("cannot send the probe call: %v", err)
	}
	_ = c.SetReadDeadline(time.Now().Add(stepTimeout))
	for {
		_, data, err := c.ReadMessage()
		if err != nil {
			if isTimeout(err) {
				return fmt.Errorf("no response to the probe call within %v (wedged)", stepTimeout)
			}
			return fmt.Errorf("connection closed before the probe call was answered: %v", err)
		}
		var r struct {
			ID     interface{}     `json:"id"`
			Result json.RawMessage `json:"result"`
			Error  json.RawMessage `json:"error"`
		}
		if json.Unmarshal(data, &r) != nil {
			continue
		}
		if s, ok := r.ID.(string); !ok || s != id {
			continue
		}
		if r.Error != nil || string(r.Result) != strconv.Itoa(n) {
			return fmt.Errorf("probe call answered wrongly: %.200q", data)
		}
		return nil
	}
}

func wsOpts() []jsonrpc.Option {
	// pings off, no reconnect; the read timeout is switched off as well so that no verdict
	// depends on wall-clock time
	return []jsonrpc.Option{jsonrpc.WithPingInterval(0), jsonrpc.WithNoReconnect(), jsonrpc.WithTimeout(0)}
}

// ---------------------------------------------------------------------------------------
// child: target A — a server under attack
// ---------------------------------------------------------------------------------------

type srvAPI struct {
	mu      sync.Mutex
	subs    []chan int
	rel     map[int]chan struct{}
	entered chan int
}

func (s *srvAPI) relCh(key int) chan struct{} {
	s.mu.Lock()
	defer s.mu.Unlock()
	ch, ok := s.rel[key]
	if !ok {
		ch = make(chan struct{})
		s.rel[key] = ch
	}
	return ch
}

func (s *srvAPI) Echo(ctx context.Context, x int) (int, error) { return x, nil }

func (s *srvAPI) Hold(ctx context.Context, key int) (int, error) {
	ch := s.relCh(key)
	if key >= sibKey {
		select {
		case s.entered <- key:
		default:
		}
	}
	select {
	case <-ch:
		return key + 1000, nil
	case <-ctx.Done():
		return 0, ctx.Err()
	}
}

func (s *srvAPI) Sub(ctx context.Context) (<-chan int, error) {
	ch := make(chan int)
	s.mu.Lock()
	s.subs = append(s.subs, ch)
	s.mu.Unlock()
	return ch, nil
}

type holdRes struct {
	v   int
	err error
}

type serverWorld struct {
	api      *srvAPI
	url      string
	sibCh    <-chan int
	holdDone chan holdRes
	seq      int
}

func newServerWorld() (*serverWorld, error) {
	api := &srvAPI{rel: map[int]chan struct{}{}, entered: make(chan int, 4)}
	rpc := jsonrpc.NewServer(jsonrpc.WithServerPingInterval(0))
	rpc.Register("T", api)
	ts := httptest.NewServer(rpc)
	w := &serverWorld{api: api, url: "ws://" + ts.Listener.Addr().String(), holdDone: make(chan holdRes, 1)}

	var sib struct {
		Hold func(context.Context, int) (int, error)
		Sub  func(context.Context) (<-chan int, error)
	}
	if _, err := jsonrpc.NewMergeClient(context.Background(), w.url, "T", []interface{}{&sib}, nil, wsOpts()...); err != nil {
		return nil, fmt.Errorf("well-behaved client cannot connect: %v", err)
	}
	ch, err := sib.Sub(context.Background())
	if err != nil {
		return nil, fmt.Errorf("well-behaved client cannot subscribe: %v", err)
	}
	w.sibCh = ch
	go func() {
		v, err := sib.Hold(context.Background(), sibKey)
		w.holdDone <- holdRes{v, err}
	}()
	select {
	case <-api.entered:
	case <-time.After(stepTimeout):
		return nil, fmt.Errorf("well-behaved client's parked call never reached the handler")
	}
	if msg := w.checkSibling(); msg != "" {
		return nil, fmt.Errorf("before any hostile input: %s", msg)
	}
	return w, nil
}

func (w *serverWorld) dial() (*websocket.Conn, error) {
	d := websocket.Dialer{HandshakeTimeout: stepTimeout}
	c, _, err := d.Dial(w.url, nil)
	return c, err
}

// checkSibling pushes one more value through the well-behaved client's subscription and
// checks that its parked call is still parked.
func (w *serverWorld) checkSibling() string {
	w.seq++
	v := 5000000 + w.seq
	w.api.mu.Lock()
	feed := w.api.subs[0]
	w.api.mu.Unlock()
	select {
	case feed <- v:
	case <-time.After(stepTimeout):
		return fmt.Sprintf("sibling disturbed: the server no longer forwards the well-behaved client's subscription (value not taken within %v)", stepTimeout)
	}
	select {
	case got, ok := <-w.sibCh:
		if !ok {
			return "sibling disturbed: the well-behaved client's subscription channel was closed"
		}
		if got != v {
			return fmt.Sprintf("sibling disturbed: the well-behaved client's subscription delivered %d, want %d", got, v)
		}
	case <-time.After(stepTimeout):
		return fmt.Sprintf("sibling disturbed: the well-behaved client's subscription did not deliver the next value within %v", stepTimeout)
	}
	select {
	case r := <-w.holdDone:
		w.holdDone <- r
		return fmt.Sprintf("sibling disturbed: the well-behaved client's parked call returned prematurely (%d, %v)", r.v, r.err)
	default:
	}
	return ""
}

// finish releases the parked call of the well-behaved client.
func (w *serverWorld) finish() string {
	close(w.api.relCh(sibKey))
	select {
	case r := <-w.holdDone:
		if r.err != nil || r.v != sibKey+1000 {
			return fmt.Sprintf("sibling disturbed: the well-behaved client's parked call returned (%d, %v) after release, want (%d, nil)", r.v, r.err, sibKey+1000)
		}
	case <-time.After(stepTimeout):
		return fmt.Sprintf("sibling disturbed: the well-behaved client's parked call did not return within %v of its release", stepTimeout)
	}
	return ""
}

func (w *serverWorld) run(idx int, in input) (viol, harness string) {
	att, err := w.dial()
	if err != nil {
		return "", fmt.Sprintf("attacker cannot connect: %v", err)
	}
	defer att.Close()
	for i, m := range in.Msgs {
		if err := writeMsg(att, m); err != nil {
			if in.Conn == connUsable {
				return fmt.Sprintf("probe failed on the same connection: cannot send message %d: %v", i, err), ""
			}
			break
		}
	}
	if in.Conn == connUsable {
		if err := probe(att, fmt.Sprintf("probe-%d-same", idx), "T.Echo", 3000000+idx); err != nil {
			return "probe failed on the same connection: " + err.Error(), ""
		}
	}
	att.Close()

	fresh, err := w.dial()
	if err != nil {
		return fmt.Sprintf("probe failed on a fresh connection: cannot connect: %v", err), ""
	}
	defer fresh.Close()
	if err := probe(fresh, fmt.Sprintf("probe-%d-fresh", idx), "T.Echo", 4000000+idx); err != nil {
		return "probe failed on a fresh connection: " + err.Error(), ""
	}
	fresh.Close()
	return w.checkSibling(), ""
}

// ---------------------------------------------------------------------------------------
// child: target B — a client under attack by a fake server
// ---------------------------------------------------------------------------------------

type revAPI struct{}

func (*revAPI) Ping(ctx context.Context, x int) (int, error) { return x, nil }
func (*revAPI) Wait(ctx context.Context, key int) (int, error) {
	<-ctx.Done()
	return 0, ctx.Err()
}

type clientWorld struct {
	url   string
	conns chan *websocket.Conn
}

func newClientWorld() *clientWorld {
	w := &clientWorld{conns: make(chan *websocket.Conn, 4)}
	up := websocket.Upgrader{CheckOrigin: func(*http.Request) bool { return true }}
	ts := httptest.NewServer(http.HandlerFunc(func(rw http.ResponseWriter, r *http.Request) {
		c, err := up.Upgrade(rw, r, nil)
		if err != nil {
			return
		}
		w.conns <- c
	}))
	w.url = "ws://" + ts.Listener.Addr().String()
	return w
}

// readCall reads the next frame the client sends and checks it is a call of method.
func readCall(c *websocket.Conn, method string) (string, error) {
	_ = c.SetReadDeadline(time.Now().Add(stepTimeout))
	_, data, err := c.ReadMessage()
	if err != nil {
		return "", err
	}
	var r struct {
		ID     json.RawMessage `json:"id"`
		Method string          `json:"method"`
	}
	if err := json.Unmarshal(data, &r); err != nil || r.Method != method || len(r.ID) == 0 {
		return "", fmt.Errorf("expected a %s call, got %.200q", method, data)
	}
	return string(r.ID), nil
}

// effects is the reference model's reading of the hostile frames: which legitimate effects
// they may have on the client's subscription (channel id subChID) and in-flight call.
type effects struct {
	mayClose    bool         // a well-formed xrpc.ch.close for the subscription
	vals        map[int]bool // values well-formed xrpc.ch.val frames may deliver
	mayComplete bool         // a response carrying the in-flight call's id
}

func modelEffects(in input, holdID string) effects {
	e := effects{vals: map[int]bool{}}
	for _, m := range in.Msgs {
		if m.T == mtRaw {
			continue
		}
		var f mframe
		if json.Unmarshal(m.D, &f) != nil {
			continue
		}
		if f.Method == "" {
			if b, err := json.Marshal(f.ID); err == nil && string(b) == holdID {
				e.mayComplete = true
			}
			continue
		}
		var ps []json.RawMessage
		if json.Unmarshal(f.Params, &ps) != nil || len(ps) == 0 {
			continue
		}
		var chid uint64
		if json.Unmarshal(ps[0], &chid) != nil || chid != subChID {
			continue
		}
		switch f.Method {
		case chClose:
			e.mayClose = true
		case chValue:
			if len(ps) >= 2 {
				var y int
				if json.Unmarshal(ps[1], &y) == nil {
					e.vals[y] = true
				}
			}
		}
	}
	return e
}

func (w *clientWorld) run(idx int, in input, withHandler bool) (viol, harness string) {
	var api struct {
		Sub  func(context.Context) (<-chan int, error)
		Hold func(context.Context) (int, error)
	}
	ctx, cancel := context.WithCancel(context.Background())
	defer cancel()
	opts := wsOpts()
	if in.Target == tgtReconn {
		opts = []jsonrpc.Option{jsonrpc.WithPingInterval(0), jsonrpc.WithTimeout(0), jsonrpc.WithReconnectBackoff(10*time.Millisecond, 50*time.Millisecond)}
	}
	if withHandler {
		opts = append(opts, jsonrpc.WithClientHandler("R", &revAPI{}))
	}
	closer, err := jsonrpc.NewMergeClient(ctx, w.url, "T", []interface{}{&api}, nil, opts...)
	if err != nil {
		return "", fmt.Sprintf("client cannot connect to the fake server: %v", err)
	}
	var sc *websocket.Conn
	select {
	case sc = <-w.conns:
	case <-time.After(stepTimeout):
		return "", "fake server did not see the client's connection"
	}
	if in.Target == tgtReconn {
		// the peer drops the first connection; the client dials again by itself
		sc.Close()
		select {
		case sc = <-w.conns:
		case <-time.After(stepTimeout):
			return fmt.Sprintf("the client did not reconnect within %v of its connection being dropped", stepTimeout), ""
		}
		// the client reads from the new connection only once it has swapped it in: an answered
		// reverse call tells that calls issued from now on are sent on this connection
		if err := probe(sc, fmt.Sprintf("ready-%d", idx), "R.Ping", 4000000+idx); err != nil {
			return "after reconnecting, the client's handler does not answer a reverse call on the new connection: " + err.Error(), ""
		}
	}
	defer sc.Close()

	// the client subscribes; the fake server answers with channel id subChID
	type subRes struct {
		ch  <-chan int
		err error
	}
	subc := make(chan subRes, 1)
	go func() {
		ch, err := api.Sub(ctx)
		subc <- subRes{ch, err}
	}()
	id1, err := readCall(sc, "T.Sub")
	if err != nil {
		return "", fmt.Sprintf("fake server: %v", err)
	}
	if err := writeText(sc, fmt.Sprintf(`{"jsonrpc":"2.0","id":%s,"result":%d}`, id1, subChID)); err != nil {
		return "", fmt.Sprintf("fake server cannot answer the subscription: %v", err)
	}
	var sub subRes
	select {
	case sub = <-subc:
		if sub.err != nil || sub.ch == nil {
			return "", fmt.Sprintf("client's subscription call failed: %v", sub.err)
		}
	case <-time.After(stepTimeout):
		return "", "client's subscription call did not return"
	}
	// one further call stays in flight
	holdc := make(chan holdRes, 1)
	go func() {
		v, err := api.Hold(ctx)
		holdc <- holdRes{v, err}
	}()
	id2, err := readCall(sc, "T.Hold")
	if err != nil {
		return "", fmt.Sprintf("fake server: %v", err)
	}
	eff := modelEffects(in, id2)
	wantV, wantW := 1000000+idx, 2000000+idx
	valFrame := fmt.Sprintf(`{"jsonrpc":"2.0","method":"xrpc.ch.val","params":[%d,%d]}`, subChID, wantV)
	respFrame := fmt.Sprintf(`{"jsonrpc":"2.0","id":%s,"result":%d}`, id2, wantW)

	closeClient := func() string {
		done := make(chan struct{})
		go func() { closer(); close(done) }()
		select {
		case <-done:
			return ""
		case <-time.After(stepTimeout):
			return fmt.Sprintf("wedged: closing the client did not finish within %v", stepTimeout)
		}
	}

	if in.Conn == connMayClose {
		// WebSocket-level violation: the client may drop the connection. Whatever it does, the
		// subscription and the in-flight call must terminate once the connection is gone.
		for _, m := range in.Msgs {
			if writeMsg(sc, m) != nil {
				break
			}
		}
		_ = writeText(sc, valFrame)
		_ = writeText(sc, respFrame)
		sc.Close()
		deadline := time.After(stepTimeout)
	drain:
		for {
			select {
			case _, ok := <-sub.ch:
				if !ok {
					break drain
				}
			case <-deadline:
				return fmt.Sprintf("wedged: subscription channel still open %v after the connection was lost", stepTimeout), ""
			}
		}
		select {
		case <-holdc:
		case <-time.After(stepTimeout):
			return fmt.Sprintf("wedged: in-flight call did not return within %v of the connection being lost", stepTimeout), ""
		}
		return closeClient(), ""
	}

	for i, m := range in.Msgs {
		if err := writeMsg(sc, m); err != nil {
			return fmt.Sprintf("probe failed on the same connection: fake server cannot send message %d: %v", i, err), ""
		}
	}
	// reverse probe: the client's handler must still answer on this connection. A client
	// without a reverse handler drops calls, so there the subscription value and the in-flight
	// call's response below are the probes on the same connection.
	if withHandler {
		if err := probe(sc, fmt.Sprintf("probe-%d", idx), "R.Ping", 3000000+idx); err != nil {
			return "probe failed on the same connection (reverse call to the client's handler): " + err.Error(), ""
		}
	}
	if !eff.mayComplete {
		select {
		case r := <-holdc:
			return fmt.Sprintf("in-flight call disturbed: returned (%d, %v) although no response with its id %s was sent", r.v, r.err, id2), ""
		default:
		}
	}
	// a valid value for the subscription must arrive on the client's channel
	if err := writeText(sc, valFrame); err != nil {
		return fmt.Sprintf("probe failed on the same connection: fake server cannot send xrpc.ch.val: %v", err), ""
	}
	deadline := time.After(stepTimeout)
recv:
	for {
		select {
		case v, ok := <-sub.ch:
			if !ok {
				if eff.mayClose {
					break recv
				}
				return "subscription disturbed: the client's channel was closed although no xrpc.ch.close for it was sent", ""
			}
			if v == wantV {
				break recv
			}
			if !eff.vals[v] {
				return fmt.Sprintf("subscription disturbed: the client's channel delivered %d, which no frame carried", v), ""
			}
		case <-deadline:
			return fmt.Sprintf("subscription disturbed: a valid xrpc.ch.val sent after the hostile input was not delivered within %v (wedged)", stepTimeout), ""
		}
	}
	// the response to the in-flight call must reach the caller
	if err := writeText(sc, respFrame); err != nil {
		return fmt.Sprintf("probe failed on the same connection: fake server cannot send the response: %v", err), ""
	}
	select {
	case r := <-holdc:
		if !eff.mayComplete && (r.err != nil || r.v != wantW) {
			return fmt.Sprintf("in-flight call disturbed: returned (%d, %v), want (%d, nil)", r.v, r.err, wantW), ""
		}
	case <-time.After(stepTimeout):
		return fmt.Sprintf("in-flight call disturbed: its response sent after the hostile input was not returned within %v (wedged)", stepTimeout), ""
	}
	return closeClient(), ""
}

// ---------------------------------------------------------------------------------------
// child entry point
// ---------------------------------------------------------------------------------------

var reGoState = regexp.MustCompile(`(?m)^goroutine \d+ \[(runnable|running)[\],]`)

// quiesce waits until no goroutine other than the caller is runnable or running. A hostile
// frame may be handled in a goroutine the library spawns (handleCall); if that goroutine is
// going to crash the process it must get the chance to do so while its input is still the
// journalled one, not after the verdict has been written.
var stackBuf = make([]byte, 4<<20)

func quiesce() {
	buf := stackBuf
	deadline := time.Now().Add(stepTimeout)
	for calm := 0; calm < 2 && time.Now().Before(deadline); {
		runtime.Gosched()
		n := runtime.Stack(buf, true)
		// the caller itself is the one "running" goroutine
		if len(reGoState.FindAllIndex(buf[:n], 2)) <= 1 {
			calm++
			continue
		}
		calm = 0
		time.Sleep(200 * time.Microsecond)
	}
}

func TestC10Child(t *testing.T) {
	if os.Getenv(envChild) == "" {
		t.Skip("runs only as a re-executed child of TestC10")
	}
	start, _ := strconv.Atoi(os.Getenv(envStart))
	end, _ := strconv.Atoi(os.Getenv(envEnd))
	// the input file holds one input per line; only the lines of this batch are decoded
	raw, err := os.ReadFile(os.Getenv(envInputs))
	if err != nil {
		t.Fatal(err)
	}
	lines := bytes.Split(raw, []byte("\n"))
	inputs := make([]input, len(lines))
	for i := start; i < end && i < len(lines); i++ {
		if err := json.Unmarshal(lines[i], &inputs[i]); err != nil {
			t.Fatalf("input %d: %v", i, err)
		}
	}
	j, err := os.OpenFile(os.Getenv(envJournal), os.O_APPEND|os.O_CREATE|os.O_WRONLY, 0o644)
	if err != nil {
		t.Fatal(err)
	}
	jw := func(format string, args ...interface{}) {
		if _, err := j.WriteString(fmt.Sprintf(format, args...) + "\n"); err != nil {
			fmt.Fprintln(os.Stderr, "journal write failed:", err)
			os.Exit(7)
		}
	}
	var sw *serverWorld
	var cw *clientWorld
	for i := start; i < end && i < len(inputs); i++ {
		in := inputs[i]
		if in.Target == "server" && sw == nil {
			if sw, err = newServerWorld(); err != nil {
				jw("E %d H %s", i, strconv.Quote("setup: "+err.Error()))
				os.Exit(0)
			}
		}
		if in.Target != "server" && cw == nil {
			cw = newClientWorld()
		}
		jw("B %d", i)
		var viol, harness string
		if in.Target == "server" {
			viol, harness = sw.run(i, in)
		} else {
			viol, harness = cw.run(i, in, in.Target != tgtNoHandler)
		}
		switch {
		case harness != "":
			jw("E %d H %s", i, strconv.Quote(harness))
			os.Exit(0)
		case viol != "":
			jw("E %d V %s", i, strconv.Quote(viol))
			os.Exit(0)
		}
		quiesce()
		jw("E %d ok", i)
	}
	if sw != nil {
		if m := sw.finish(); m != "" {
			jw("F %s", strconv.Quote(m))
			os.Exit(0)
		}
	}
	jw("D")
	os.Exit(0)
}

// ---------------------------------------------------------------------------------------
// parent
// ---------------------------------------------------------------------------------------

type capBuf struct {
	mu sync.Mutex
	b  []byte
}

func (c *capBuf) Write(p []byte) (int, error) {
	c.mu.Lock()
	if room := 64<<10 - len(c.b); room > 0 {
		if len(p) < room {
			room = len(p)
		}
		c.b = append(c.b, p[:room]...)
	}
	c.mu.Unlock()
	return len(p), nil
}

type childOut struct {
	ok       []int
	violIdx  int
	violMsg  string
	harnIdx  int
	harnMsg  string
	inprog   int
	lastDone int
	done     bool
	endFail  string
	timedOut bool
	exit     string
	output   string
}

const (
	stUnknown = iota
	stOK
	stViol
)

type result struct {
	state int
	msg   string
}

type parent struct {
	exe     string
	dir     string
	inFile  string
	inputs  []input
	mu      sync.Mutex
	results []result
	harn    []string
	nChild  int64
	nSingle int64
	sem     chan struct{} // bounds the isolated re-runs running beside the batch workers
	pending sync.WaitGroup
	nViol   int64
	stopped int32
}

func (p *parent) harness(format string, args ...interface{}) {
	p.mu.Lock()
	p.harn = append(p.harn, fmt.Sprintf(format, args...))
	p.mu.Unlock()
}

func (p *parent) set(i, st int, msg string) {
	p.mu.Lock()
	p.results[i] = result{st, msg}
	p.mu.Unlock()
	if st == stViol {
		atomic.AddInt64(&p.nViol, 1)
	}
}

// stopEarly: once this many inputs have been confirmed as violations the verdict is settled;
// the remaining inputs are not run (each wedging input costs a 10 s step timeout) and the
// report says exhaustive=false.
const stopAfterViolations = 80

func unquote(s string) string {
	if u, err := strconv.Unquote(s); err == nil {
		return u
	}
	return s
}

func (p *parent) runChild(start, end int, limit time.Duration) childOut {
	n := atomic.AddInt64(&p.nChild, 1)
	journal := filepath.Join(p.dir, fmt.Sprintf("journal-%d", n))
	ctx, cancel := context.WithTimeout(context.Background(), limit)
	defer cancel()
	cmd := exec.CommandContext(ctx, p.exe, "-test.run=^TestC10Child$", "-test.timeout=0", "-test.count=1")
	env := os.Environ()
	if os.Getenv("GOLOG_LOG_LEVEL") == "" {
		env = append(env, "GOLOG_LOG_LEVEL=fatal")
	}
	cmd.Env = append(env, envChild+"=1", envInputs+"="+p.inFile, envStart+"="+strconv.Itoa(start), envEnd+"="+strconv.Itoa(end),
		envJournal+"="+journal, "GOTRACEBACK=single", "VOUT=")
	buf := &capBuf{}
	cmd.Stdout, cmd.Stderr = buf, buf
	cmd.WaitDelay = 5 * time.Second
	err := cmd.Run()
	out := childOut{violIdx: -1, harnIdx: -1, inprog: -1, lastDone: -1, output: string(buf.b)}
	out.timedOut = ctx.Err() == context.DeadlineExceeded
	if err != nil {
		out.exit = err.Error()
	}
	data, _ := os.ReadFile(journal)
	_ = os.Remove(journal)
	for _, line := range strings.Split(string(data), "\n") {
		f := strings.SplitN(line, " ", 4)
		switch f[0] {
		case "B":
			out.inprog, _ = strconv.Atoi(f[1])
		case "E":
			i, _ := strconv.Atoi(f[1])
			out.inprog, out.lastDone = -1, i
			switch {
			case len(f) >= 3 && f[2] == "ok":
				out.ok = append(out.ok, i)
			case len(f) == 4 && f[2] == "V":
				out.violIdx, out.violMsg = i, unquote(f[3])
			case len(f) == 4 && f[2] == "H":
				out.harnIdx, out.harnMsg = i, unquote(f[3])
			}
		case "F":
			out.endFail = unquote(strings.TrimPrefix(line, "F "))
		case "D":
			out.done = true
		}
	}
	return out
}

var reFn = regexp.MustCompile(`go-jsonrpc[^\s(]*\.((?:\(\*?\w+\)\.)?\w+)(?:\.func\d+)?\(`)

// crashSummary extracts the panic line and the first library function on the stack.
func crashSummary(o childOut) string {
	lines := strings.Split(o.output, "\n")
	for i, l := range lines {
		if strings.HasPrefix(l, "panic: ") || strings.HasPrefix(l, "fatal error: ") {
			s := strings.TrimSpace(l)
			for _, l2 := range lines[i+1:] {
				if m := reFn.FindStringSubmatch(l2); m != nil && !strings.Contains(l2, "/seqx/") {
					s += " [in " + m[1] + "]"
					break
				}
			}
			return s
		}
	}
	tail := lines
	if len(tail) > 6 {
		tail = tail[len(tail)-6:]
	}
	return fmt.Sprintf("child exited (%s) without a panic line; last output: %q", o.exit, strings.Join(tail, " / "))
}

// isolated re-runs one input alone in a fresh child and returns its verdict.
func (p *parent) isolated(idx int) (msg string, bad bool, harness string) {
	atomic.AddInt64(&p.nSingle, 1)
	o := p.runChild(idx, idx+1, singleTimeout)
	switch {
	case o.harnIdx == idx:
		return "", false, o.harnMsg
	case o.violIdx == idx:
		return o.violMsg, true, ""
	case o.endFail != "":
		return o.endFail, true, ""
	case o.done:
		return "", false, ""
	case o.timedOut:
		if o.inprog == idx || o.lastDone == idx {
			return fmt.Sprintf("wedged: the process made no progress for %v with only this input", singleTimeout), true, ""
		}
		return "", false, "isolated child timed out before reaching the input: " + crashSummary(o)
	case o.inprog == idx || o.lastDone == idx:
		return "process crashed: " + crashSummary(o), true, ""
	}
	return "", false, "isolated child died before reaching the input: " + crashSummary(o)
}

// confirm believes an observation made in a batch only if it reproduces in isolation.
func (p *parent) confirm(idx int, observed string) {
	p.pending.Add(1)
	go func() {
		defer p.pending.Done()
		p.sem <- struct{}{}
		defer func() { <-p.sem }()
		p.confirmNow(idx, observed)
	}()
}

func (p *parent) confirmNow(idx int, observed string) {
	msg, bad, h := p.isolated(idx)
	for try := 0; try < 2 && !bad && h == ""; try++ {
		msg, bad, h = p.isolated(idx) // a crash in a spawned goroutine is asynchronous: give it two more chances
	}
	switch {
	case h != "":
		p.harness("input %d [%s]: %s (batch observation: %s)", idx, p.inputs[idx].describe(), h, observed)
	case bad:
		p.set(idx, stViol, msg)
	default:
		p.harness("input %d [%s]: observed in a batch but NOT reproduced in isolation: %s", idx, p.inputs[idx].describe(), observed)
	}
}

func (p *parent) processChunk(s, e int) {
	cur, setupFails := s, 0
	for cur < e {
		if atomic.LoadInt64(&p.nViol) >= stopAfterViolations {
			atomic.StoreInt32(&p.stopped, 1)
			return
		}
		o := p.runChild(cur, e, batchTimeout)
		for _, i := range o.ok {
			p.set(i, stOK, "")
		}
		switch {
		case o.harnIdx >= 0:
			p.harness("input %d [%s]: %s", o.harnIdx, p.inputs[o.harnIdx].describe(), o.harnMsg)
			return
		case o.violIdx >= 0:
			p.confirm(o.violIdx, o.violMsg)
			cur = o.violIdx + 1
		case o.done:
			cur = e
		case o.endFail != "":
			found := false
			for j := cur; j < e; j++ {
				msg, bad, h := p.isolated(j)
				if h != "" {
					p.harness("input %d: %s", j, h)
				}
				if bad {
					p.set(j, stViol, msg)
					found = true
				}
			}
			if !found {
				p.harness("inputs %d..%d: end-of-batch check failed (%s) but no single input reproduces it", cur, e-1, o.endFail)
			}
			cur = e
		case o.inprog >= 0:
			obs := "process crashed: " + crashSummary(o)
			if o.timedOut {
				obs = fmt.Sprintf("no progress for %v", batchTimeout)
			}
			p.confirm(o.inprog, obs)
			cur = o.inprog + 1
		case o.lastDone >= 0:
			p.confirm(o.lastDone, "process died right after this input: "+crashSummary(o))
			cur = o.lastDone + 1
		default:
			setupFails++
			if setupFails >= 3 {
				p.harness("inputs %d..%d: child died before its first input 3 times: %s", cur, e-1, crashSummary(o))
				return
			}
		}
	}
}

// ---------------------------------------------------------------------------------------
// size limit
// ---------------------------------------------------------------------------------------

type sizeAPI struct{ n int64 }

func (s *sizeAPI) Echo(ctx context.Context, x int) (int, error) {
	atomic.AddInt64(&s.n, 1)
	return x, nil
}

type hiddenLen struct{ r io.Reader } // hides the length so that net/http uses chunked encoding

func (h hiddenLen) Read(p []byte) (int, error) { return h.r.Read(p) }

func sizeCheck(c *rep.Collector) {
	base := `{"jsonrpc":"2.0","id":1,"method":"T.Echo","params":[7]}`
	comma := strings.Index(base, ",") + 1
	type body struct {
		variant string
		data    string
		valid   bool
	}
	bodies := func(n int) []body {
		if n < 0 {
			return nil
		}
		if n == 0 {
			return []body{{"empty", "", false}}
		}
		if n >= len(base) {
			pad := n - len(base)
			sp, nl := strings.Repeat(" ", pad), strings.Repeat("\n", pad)
			mixed := strings.Repeat("\t\r\n ", pad/4+1)[:pad]
			bs := []body{{"trailing-spaces", base + sp, true}}
			if pad > 0 {
				bs = append(bs, body{"leading-spaces", sp + base, true}, body{"trailing-newlines", base + nl, true},
					body{"internal-spaces", base[:comma] + sp + base[comma:], true}, body{"mixed-whitespace-around", mixed[:pad/2] + base + mixed[pad/2:], true})
			}
			return bs
		}
		return []body{{"spaces-only", strings.Repeat(" ", n), false}, {"truncated-request", base[:n], false}, {"letters", strings.Repeat("x", n), false}}
	}
	for _, L := range []int{1, 64, 1000} {
		api := &sizeAPI{}
		rpc := jsonrpc.NewServer(jsonrpc.WithMaxRequestSize(int64(L)))
		rpc.Register("T", api)
		ts := httptest.NewServer(rpc)
		entries := []struct {
			name string
			do   func(b string) (string, int, error)
		}{
			{"ServeHTTP", func(b string) (string, int, error) {
				rec := httptest.NewRecorder()
				rpc.ServeHTTP(rec, httptest.NewRequest("POST", "/", strings.NewReader(b)))
				return rec.Body.String(), rec.Code, nil
			}},
			{"HandleRequest", func(b string) (string, int, error) {
				var w bytes.Buffer
				rpc.HandleRequest(context.Background(), strings.NewReader(b), &w)
				return w.String(), 0, nil
			}},
			{"http", func(b string) (string, int, error) {
				resp, err := http.Post(ts.URL, "application/json", strings.NewReader(b))
				if err != nil {
					return "", 0, err
				}
				defer resp.Body.Close()
				d, err := io.ReadAll(resp.Body)
				return string(d), resp.StatusCode, err
			}},
			{"http-chunked", func(b string) (string, int, error) {
				resp, err := http.Post(ts.URL, "application/json", hiddenLen{strings.NewReader(b)})
				if err != nil {
					return "", 0, err
				}
				defer resp.Body.Close()
				d, err := io.ReadAll(resp.Body)
				return string(d), resp.StatusCode, err
			}},
		}
		for _, n := range []int{L - 1, L, L + 1, 2*L + 1, L + 65536} {
			for _, b := range bodies(n) {
				for _, en := range entries {
					key := fmt.Sprintf("size/L=%d/%s/n=%d/%s", L, en.name, n, b.variant)
					before := atomic.LoadInt64(&api.n)
					reply, status, err := en.do(b.data)
					ran := atomic.LoadInt64(&api.n) - before
					c.Case(key, true, "size")
					if L == 64 && en.name == "ServeHTTP" && b.variant == "trailing-spaces" {
						c.Sample(map[string]interface{}{"limit": L, "entry": en.name, "body_bytes": n, "body": b.variant})
					}
					show := b.data
					if len(show) > 160 {
						show = show[:70] + "..." + show[len(show)-70:]
					}
					where := fmt.Sprintf("size: limit L=%d entry=%s body of %d bytes (%s) %q", L, en.name, n, b.variant, show)
					if err != nil {
						c.Violate("size", key, "%s: transport error %v", where, err)
						continue
					}
					var r struct {
						Result json.RawMessage `json:"result"`
						Error  *struct {
							Code    int    `json:"code"`
							Message string `json:"message"`
						} `json:"error"`
					}
					perr := json.Unmarshal([]byte(reply), &r)
					switch {
					case n > L:
						if ran != 0 {
							c.Violate("size", key, "%s: oversize body (> L) but the handler ran %d times", where, ran)
						}
						if perr != nil || r.Error == nil || r.Result != nil {
							c.Violate("size", key, "%s: oversize body (> L) not rejected with an error reply: status=%d reply=%.200q", where, status, reply)
						}
					case b.valid:
						if ran != 1 {
							c.Violate("size", key, "%s: body within the limit (<= L) carrying a valid request: handler ran %d times, want 1", where, ran)
						}
						if perr != nil || r.Error != nil || string(r.Result) != "7" {
							c.Violate("size", key, "%s: body within the limit (<= L) carrying a valid request: status=%d reply=%.200q, want result 7", where, status, reply)
						}
					default:
						if ran != 0 {
							c.Violate("size", key, "%s: no valid request in the body but the handler ran %d times", where, ran)
						}
					}
				}
			}
		}
		ts.Close()
	}
}

// ---------------------------------------------------------------------------------------
// TestC10
// ---------------------------------------------------------------------------------------

var reClass = regexp.MustCompile(`\d{3,}`)

func TestC10(t *testing.T) {
	if os.Getenv(envChild) != "" {
		t.Skip("child process")
	}
	t0 := time.Now()
	tier := rep.Tier()
	c := rep.New("C10")
	c.SetMaxViolations(200)

	sizeCheck(c)

	inputs := enumerate(tier)
	exhaustive := true
	if only := os.Getenv("VC10_KINDS"); only != "" { // debugging aid: restrict to some input kinds
		exhaustive = false
		var keep []input
		for _, in := range inputs {
			if strings.Contains(","+only+",", ","+in.Kind+",") {
				keep = append(keep, in)
			}
		}
		inputs = keep
	}
	dir, err := os.MkdirTemp("", "c10-")
	if err != nil {
		t.Fatal(err)
	}
	defer os.RemoveAll(dir)
	exe, err := os.Executable()
	if err != nil {
		exe = os.Args[0]
	}
	p := &parent{exe: exe, dir: dir, inFile: filepath.Join(dir, "inputs.json"), inputs: inputs, results: make([]result, len(inputs))}
	var raw bytes.Buffer
	for _, in := range inputs {
		b, err := json.Marshal(in)
		if err != nil {
			t.Fatal(err)
		}
		raw.Write(b)
		raw.WriteByte('\n')
	}
	if err := os.WriteFile(p.inFile, raw.Bytes(), 0o644); err != nil {
		t.Fatal(err)
	}

	// disjoint index ranges; a chunk never spans the two targets
	type chunk struct{ s, e int }
	var chunks []chunk
	for s := 0; s < len(inputs); {
		e := s
		for e < len(inputs) && e-s < chunkSize && inputs[e].Target == inputs[s].Target {
			e++
		}
		chunks = append(chunks, chunk{s, e})
		s = e
	}
	workers := runtime.NumCPU()
	if v, err := strconv.Atoi(os.Getenv("VWORKERS")); err == nil && v > 0 {
		workers = v
	}
	p.sem = make(chan struct{}, workers)
	q := make(chan chunk)
	var wg sync.WaitGroup
	for i := 0; i < workers; i++ {
		wg.Add(1)
		go func() {
			defer wg.Done()
			for ch := range q {
				p.processChunk(ch.s, ch.e)
			}
		}()
	}
	for _, ch := range chunks {
		q <- ch
	}
	close(q)
	wg.Wait()
	p.pending.Wait()

	for i, r := range p.results {
		if r.state == stUnknown && len(p.harn) == 0 && atomic.LoadInt32(&p.stopped) == 0 {
			p.harn = append(p.harn, fmt.Sprintf("input %d [%s] was never decided", i, inputs[i].describe()))
		}
	}
	if len(p.harn) > 0 {
		sort.Strings(p.harn)
		if len(p.harn) > 20 {
			p.harn = append(p.harn[:20], fmt.Sprintf("... and %d more", len(p.harn)-20))
		}
		t.Fatalf("harness problem, no verdict written (%d children started):\n%s", p.nChild, strings.Join(p.harn, "\n"))
	}

	// coverage + violations, in enumeration order; one representative per class first so that
	// every class survives the cap on kept violations
	type viol struct {
		idx   int
		class string
		msg   string
	}
	var viols []viol
	classCount := map[string]int{}
	classFirst := map[string]string{}
	if atomic.LoadInt32(&p.stopped) == 1 {
		exhaustive = false
		c.Extra("stopped_early", fmt.Sprintf("after %d confirmed violations; inputs not run are not counted", atomic.LoadInt64(&p.nViol)))
	}
	for i, r := range p.results {
		in := inputs[i]
		if r.state == stUnknown && atomic.LoadInt32(&p.stopped) == 1 {
			continue
		}
		c.Case(in.key(), true, in.Target+"/"+in.Kind)
		c.Sample(map[string]interface{}{"target": in.Target, "kind": in.Kind, "input": in.describe()})
		if r.state != stViol {
			continue
		}
		ms := methodsOf(in)
		// the runtime words the same failure in two ways depending on whether the map is empty
		norm := strings.Replace(r.msg, "panic: hash of unhashable type: ", "panic: runtime error: hash of unhashable type ", 1)
		class := in.Target + " | " + reClass.ReplaceAllString(norm, "N")
		if classCount[class] == 0 {
			classFirst[class] = in.describe()
		}
		classCount[class]++
		viols = append(viols, viol{i, class, fmt.Sprintf("%s: %s input [%s] methods=%s: %s", in.Target, in.Kind, in.describe(), ms, r.msg)})
	}
	seenClass := map[string]bool{}
	isFirst := map[int]bool{}
	var ordered []viol
	for _, v := range viols {
		if !seenClass[v.class] {
			seenClass[v.class] = true
			isFirst[v.idx] = true
			ordered = append(ordered, v)
		}
	}
	for _, v := range viols {
		if !isFirst[v.idx] {
			ordered = append(ordered, v)
		}
	}
	for _, v := range ordered {
		in := inputs[v.idx]
		c.Violate(in.Target, map[string]interface{}{"index": v.idx, "kind": in.Kind, "input": in.describe()}, "%s", v.msg)
	}
	var classes []map[string]interface{}
	var cks []string
	for k := range classCount {
		cks = append(cks, k)
	}
	sort.Strings(cks)
	for _, k := range cks {
		classes = append(classes, map[string]interface{}{"class": k, "count": classCount[k], "first_input": classFirst[k]})
	}
	c.Extra("violation_classes", classes)
	c.Extra("tier", tier)
	c.Extra("children_started", p.nChild)
	c.Extra("isolated_reruns", p.nSingle)
	c.Extra("workers", workers)
	t.Logf("tier=%s inputs=%d children=%d isolated=%d violations=%d classes=%d wall=%v", tier, len(inputs), p.nChild, p.nSingle, len(viols), len(classCount), time.Since(t0).Round(time.Millisecond))
	for _, k := range cks {
		t.Logf("CLASS x%d %s   e.g. %s", classCount[k], k, classFirst[k])
	}

	rule := "single frames: 6 methods (xrpc.cancel, xrpc.ch.val, xrpc.ch.close, response, unknown, valid call) x 94 params shapes (absent, null, [], [x], [x,y], {} " +
		"with x,y over 9 JSON values) x 7 id shapes, 8 result x 8 error members x 7 ids for responses, meta/id/spelling extras, non-JSON and oversized messages, " +
		"the same as binary messages, hand-built WebSocket-level frames (legal and protocol violations); each sent to a real server (with a well-behaved " +
		"second client holding a subscription and a parked call), from a fake server to a real client (holding a subscription, an in-flight call and a " +
		"reverse handler) and to a second real client created without any reverse handler (holding a subscription and an in-flight call); HTTP/HandleRequest bodies of L-1, L, L+1, 2L+1, L+64Ki bytes for L in {1,64,1000}"
	if tier == "thorough" {
		rule += "; all sequences of length <= 2 over a 40-frame alphabet; every truncation, single-byte deletion and substitution from 8 bytes at every offset of 6 seed frames"
	}
	rule += ". Every input runs in a child process; a violation is kept only if it reproduces with that input alone in a fresh process."
	c.Write(t, exhaustive, rule)
}
