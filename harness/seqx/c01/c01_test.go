// C01 — remote calls are transparent: args in, results out, on every transport.
//
// Bounded-exhaustive enumeration of a generated signature matrix x boundary-value tuples x
// programmed handler outcomes x transport x method-name formatter, compared with a reference
// model that is encoding/json itself (DESIGN.md §3 C01, §2.8).
//
// Files:
//
//	c01_test.go          alphabet, matrix, generator (TestGen), reference model, driver
//	methods_gen_test.go  GENERATED: one handler method per matrix entry (do not edit)
//
// Regenerate methods_gen_test.go after changing matrix()/typeNames:
//
//	rm -f methods_gen_test.go && C01_GEN=1 go test -vet=off -count=1 -run TestGen ./seqx/c01
package c01

import (
	"bytes"
	"context"
	"encoding/hex"
	"encoding/json"
	"errors"
	"fmt"
	"go/format"
	"io"
	"math"
	"net/http/httptest"
	"os"
	"reflect"
	"runtime"
	"sort"
	"strconv"
	"strings"
	"sync"
	"sync/atomic"
	"testing"
	"time"

	jsonrpc "github.com/filecoin-project/go-jsonrpc"

	"verifharness/seqx/rep"
)

const namespace = "Verif"

// ---------------------------------------------------------------------------------------------
// Type alphabet
// ---------------------------------------------------------------------------------------------

// In is the nested struct.
type In struct {
	X int     `json:"x"`
	Y *string `json:"y,omitempty"`
}

// Emb is embedded into S (its fields are promoted in the JSON form).
type Emb struct {
	E uint64
	F float64 `json:"f"`
}

// S is the struct of the alphabet: embedded + nested + every container kind.
type S struct {
	Emb
	A  int64 `json:"a"`
	B  string
	N  In             `json:"n"`
	P  *In            `json:"p"`
	L  []In           `json:"l"`
	Mp map[string]*In `json:"mp,omitempty"`
	Bs []byte
	I  interface{}     `json:"i"`
	R  json.RawMessage `json:"r"`
}

// M has a custom JSON form ("k|n" as a JSON string); its fields are unexported, so only the
// custom (Un)Marshaler can carry it.
type M struct {
	k string
	n int
}

func (m M) MarshalJSON() ([]byte, error) { return json.Marshal(m.k + "|" + strconv.Itoa(m.n)) }
func (m *M) UnmarshalJSON(b []byte) error {
	if string(b) == "null" {
		return nil
	}
	var s string
	if err := json.Unmarshal(b, &s); err != nil {
		return err
	}
	i := strings.LastIndex(s, "|")
	if i < 0 {
		return fmt.Errorf("M: no separator in %q", s)
	}
	n, err := strconv.Atoi(s[i+1:])
	if err != nil {
		return err
	}
	m.k, m.n = s[:i], n
	return nil
}

// Shape is not JSON-serialisable by itself (interface): carried by a custom param codec.
type Shape interface{ Area() int }
type Square struct{ Side int }
type Circle struct{ R int }

func (s Square) Area() int { return s.Side * s.Side }
func (c Circle) Area() int { return 3 * c.R * c.R }

type shapeWire struct {
	Kind string `json:"kind"`
	N    int    `json:"n"`
}

func encShape(v reflect.Value) (reflect.Value, error) {
	switch s := v.Interface().(type) {
	case Square:
		return reflect.ValueOf(shapeWire{"sq", s.Side}), nil
	case Circle:
		return reflect.ValueOf(shapeWire{"ci", s.R}), nil
	}
	return reflect.Value{}, fmt.Errorf("encShape: unsupported %v", v)
}

func decShape(_ context.Context, b []byte) (reflect.Value, error) {
	var w shapeWire
	if err := json.Unmarshal(b, &w); err != nil {
		return reflect.Value{}, err
	}
	switch w.Kind {
	case "sq":
		return reflect.ValueOf(Square{w.N}), nil
	case "ci":
		return reflect.ValueOf(Circle{w.N}), nil
	}
	return reflect.Value{}, fmt.Errorf("decShape: unknown kind %q", w.Kind)
}

// Pt is a concrete type whose *parameter* wire form is replaced by a codec ("x;y" string); as a
// result it travels as plain JSON (the library has no result codecs).
type Pt struct{ X, Y int }

func encPt(v reflect.Value) (reflect.Value, error) {
	p := v.Interface().(Pt)
	return reflect.ValueOf(strconv.Itoa(p.X) + ";" + strconv.Itoa(p.Y)), nil
}

func decPt(_ context.Context, b []byte) (reflect.Value, error) {
	var s string
	if err := json.Unmarshal(b, &s); err != nil {
		return reflect.Value{}, err
	}
	i := strings.Index(s, ";")
	if i < 0 {
		return reflect.Value{}, fmt.Errorf("decPt: %q", s)
	}
	x, err := strconv.Atoi(s[:i])
	if err != nil {
		return reflect.Value{}, err
	}
	y, err := strconv.Atoi(s[i+1:])
	if err != nil {
		return reflect.Value{}, err
	}
	return reflect.ValueOf(Pt{x, y}), nil
}

const (
	nT       = 14 // size of the alphabet T proper
	tString  = 5
	tS       = 10
	tIface   = 12
	tRawPar  = 14
	tShape   = 15
	tPt      = 16
	nAllType = 17
)

// typeNames are the Go spellings used by the generator; typeRT the matching reflect types.
var typeNames = [nAllType]string{
	"int", "int64", "uint64", "float64", "bool", "string", "[]byte", "[]int", "map[string]int",
	"*S", "S", "json.RawMessage", "interface{}", "M",
	"jsonrpc.RawParams", "Shape", "Pt",
}

var typeRT = [nAllType]reflect.Type{
	reflect.TypeOf(int(0)), reflect.TypeOf(int64(0)), reflect.TypeOf(uint64(0)), reflect.TypeOf(float64(0)),
	reflect.TypeOf(false), reflect.TypeOf(""), reflect.TypeOf([]byte(nil)), reflect.TypeOf([]int(nil)),
	reflect.TypeOf(map[string]int(nil)), reflect.TypeOf((*S)(nil)), reflect.TypeOf(S{}),
	reflect.TypeOf(json.RawMessage(nil)), reflect.TypeOf((*interface{})(nil)).Elem(), reflect.TypeOf(M{}),
	reflect.TypeOf(jsonrpc.RawParams(nil)), reflect.TypeOf((*Shape)(nil)).Elem(), reflect.TypeOf(Pt{}),
}

func strp(s string) *string { return &s }

var fullS = S{
	Emb: Emb{E: math.MaxUint64, F: math.Copysign(0, -1)},
	A:   math.MinInt64,
	B:   "<>&\"\\\u2028",
	N:   In{X: -1, Y: strp("y")},
	P:   &In{},
	L:   []In{{X: 1}},
	Mp:  map[string]*In{"k": nil, "j": {X: 2}},
	Bs:  []byte{0, 255},
	I:   []interface{}{"z", 1.0, nil},
	R:   json.RawMessage(`{"q":[]}`),
}

var emptyS = S{
	L:  []In{},
	Mp: map[string]*In{},
	Bs: []byte{},
	I:  map[string]interface{}{},
	R:  json.RawMessage(`[]`),
}

// vals is the boundary-value alphabet per type (DESIGN C01), simplest first.
var vals = [nAllType][]interface{}{
	{int(0), int(1), int(-1), int(math.MinInt), int(math.MaxInt)},
	{int64(0), int64(1), int64(-1), int64(math.MinInt64), int64(math.MaxInt64)},
	{uint64(0), uint64(1), uint64(math.MaxUint64)},
	{float64(0), math.Copysign(0, -1), 1.5, 1e308, 5e-324},
	{false, true},
	{"", "abc", "<>&\"\\", "\x00\x1f", "\u2028", "h\u00e9llo, \u4e16\u754c", "\U0001F600"},
	{[]byte(nil), []byte{}, []byte{0x00, 0xff, '<'}},
	{[]int(nil), []int{}, []int{1}},
	{map[string]int(nil), map[string]int{}, map[string]int{"a": 1}},
	{(*S)(nil), &S{}, &fullS},
	{S{}, fullS, emptyS},
	{json.RawMessage(nil), json.RawMessage(`null`), json.RawMessage(`[]`), json.RawMessage(`{"a":[1,{}]}`), json.RawMessage(` [ 1 , "<" ] `)},
	{nil, int(7), "x<y", []interface{}{}, map[string]interface{}{"a": []interface{}{1.5, nil}}},
	{M{}, M{"a", 1}, M{"<&>|\u2028", -5}},
	{jsonrpc.RawParams(nil), jsonrpc.RawParams(`[]`), jsonrpc.RawParams(`[1,"a<"]`), jsonrpc.RawParams(`{"a":[1,{}]}`), jsonrpc.RawParams(` { "k" : 1 } `), jsonrpc.RawParams(`null`)},
	{Square{0}, Square{3}, Circle{-2}},
	{Pt{}, Pt{1, -2}, Pt{math.MaxInt, math.MinInt}},
}

// ---------------------------------------------------------------------------------------------
// Method matrix
// ---------------------------------------------------------------------------------------------

const (
	shNone = iota
	shValue
	shError
	shValErr
)

var shapeNames = [...]string{"none", "value", "error", "value+error"}

type spec struct {
	Idx    int
	Name   string
	Kind   string // a0, a1, a2, a3, raw, codec
	Ctx    bool
	Params []int
	Shape  int
	Res    int // type index, -1 when the shape has no value
}

func matrix() []spec {
	var out []spec
	add := func(kind string, ctx bool, params []int, shape, res int) {
		if shape == shNone || shape == shError {
			res = -1
		}
		idx := len(out)
		out = append(out, spec{Idx: idx, Name: fmt.Sprintf("M%04d", idx), Kind: kind, Ctx: ctx,
			Params: append([]int(nil), params...), Shape: shape, Res: res})
	}
	ctxs := []bool{false, true}
	// arity 0 and 1: every parameter type x every result shape x every result type
	allShapes := func(kind string, params []int) {
		for _, ctx := range ctxs {
			add(kind, ctx, params, shNone, -1)
			add(kind, ctx, params, shError, -1)
			for r := 0; r < nT; r++ {
				add(kind, ctx, params, shValue, r)
			}
			for r := 0; r < nT; r++ {
				add(kind, ctx, params, shValErr, r)
			}
		}
	}
	allShapes("a0", nil)
	for p := 0; p < nT; p++ {
		allShapes("a1", []int{p})
	}
	// RawParams shapes
	for _, ctx := range ctxs {
		add("raw", ctx, []int{tRawPar}, shNone, -1)
		add("raw", ctx, []int{tRawPar}, shValue, tS)
		add("raw", ctx, []int{tRawPar}, shError, -1)
		add("raw", ctx, []int{tRawPar}, shValErr, tString)
	}
	// custom param encoder/decoder pairs
	add("codec", false, []int{tShape}, shValErr, tString)
	add("codec", false, []int{tPt}, shNone, -1)
	add("codec", true, []int{tShape, tPt}, shError, -1)
	add("codec", true, []int{0, tPt, tString}, shValErr, tPt)
	// arity 2: every type assignment; the result type rotates so that every (param type,
	// result type) pair occurs for both positions
	for i := 0; i < nT; i++ {
		for j := 0; j < nT; j++ {
			for _, ctx := range ctxs {
				for sh := shNone; sh <= shValErr; sh++ {
					add("a2", ctx, []int{i, j}, sh, (i+j)%nT)
				}
			}
		}
	}
	// arity 3: pairwise-covering set of type assignments (Latin square k=i+j mod 14: every pair
	// of (position, type) x (position, type) occurs)
	for i := 0; i < nT; i++ {
		for j := 0; j < nT; j++ {
			k := (i + j) % nT
			for _, ctx := range ctxs {
				for sh := shNone; sh <= shValErr; sh++ {
					add("a3", ctx, []int{i, j, k}, sh, (i+3*j+1)%nT)
				}
			}
		}
	}
	return out
}

var (
	ctxRT = reflect.TypeOf((*context.Context)(nil)).Elem()
	errRT = reflect.TypeOf((*error)(nil)).Elem()
)

func (s *spec) funcType() reflect.Type {
	var in, out []reflect.Type
	if s.Ctx {
		in = append(in, ctxRT)
	}
	for _, p := range s.Params {
		in = append(in, typeRT[p])
	}
	if s.Res >= 0 {
		out = append(out, typeRT[s.Res])
	}
	if s.Shape == shError || s.Shape == shValErr {
		out = append(out, errRT)
	}
	return reflect.FuncOf(in, out, false)
}

// ---------------------------------------------------------------------------------------------
// Handler (methods are generated into methods_gen_test.go)
// ---------------------------------------------------------------------------------------------

type ranRec struct {
	idx  int
	args []interface{}
}

// H is the server-side handler. Every generated method calls rec with its matrix index and the
// arguments it received and returns the programmed outcome.
type H struct {
	mu     sync.Mutex
	ran    []ranRec
	outVal interface{}
	outErr error
}

func (h *H) rec(idx int, args ...interface{}) (interface{}, error) {
	h.mu.Lock()
	defer h.mu.Unlock()
	h.ran = append(h.ran, ranRec{idx, args})
	return h.outVal, h.outErr
}

func (h *H) program(v interface{}, err error) {
	h.mu.Lock()
	h.ran, h.outVal, h.outErr = nil, v, err
	h.mu.Unlock()
}

func (h *H) take() []ranRec {
	h.mu.Lock()
	defer h.mu.Unlock()
	r := h.ran
	h.ran = nil
	return r
}

func as[T any](v interface{}) T {
	if v == nil {
		var z T
		return z
	}
	return v.(T)
}

// TestGen writes methods_gen_test.go (only with C01_GEN=1).
func TestGen(t *testing.T) {
	if os.Getenv("C01_GEN") != "1" {
		t.Skip("set C01_GEN=1 to regenerate methods_gen_test.go")
	}
	var b bytes.Buffer
	b.WriteString("// Code generated by TestGen in c01_test.go (C01_GEN=1); DO NOT EDIT.\n\npackage c01\n\n")
	b.WriteString("import (\n\t\"context\"\n\t\"encoding/json\"\n\n\tjsonrpc \"github.com/filecoin-project/go-jsonrpc\"\n)\n\n")
	b.WriteString("var _ = json.RawMessage(nil)\nvar _ = jsonrpc.RawParams(nil)\nvar _ context.Context\n\n")
	for _, s := range matrix() {
		var ins, names []string
		if s.Ctx {
			ins = append(ins, "_ context.Context")
		}
		for i, p := range s.Params {
			ins = append(ins, fmt.Sprintf("a%d %s", i, typeNames[p]))
			names = append(names, fmt.Sprintf("a%d", i))
		}
		call := fmt.Sprintf("h.rec(%s)", strings.Join(append([]string{strconv.Itoa(s.Idx)}, names...), ", "))
		head := fmt.Sprintf("func (h *H) %s(%s)", s.Name, strings.Join(ins, ", "))
		switch s.Shape {
		case shNone:
			fmt.Fprintf(&b, "%s { %s }\n", head, call)
		case shValue:
			fmt.Fprintf(&b, "%s %s { r, _ := %s; return as[%s](r) }\n", head, typeNames[s.Res], call, typeNames[s.Res])
		case shError:
			fmt.Fprintf(&b, "%s error { _, e := %s; return e }\n", head, call)
		case shValErr:
			fmt.Fprintf(&b, "%s (%s, error) { r, e := %s; return as[%s](r), e }\n", head, typeNames[s.Res], call, typeNames[s.Res])
		}
	}
	src, err := format.Source(b.Bytes())
	if err != nil {
		t.Fatal(err)
	}
	if err := os.WriteFile("methods_gen_test.go", src, 0o644); err != nil {
		t.Fatal(err)
	}
	t.Logf("wrote methods_gen_test.go: %d methods", len(matrix()))
}

// ---------------------------------------------------------------------------------------------
// Reference model
// ---------------------------------------------------------------------------------------------

// dump renders a value canonically and strictly: nil vs empty containers, dynamic types behind
// interfaces and float bit patterns are all visible, so string equality is reflect.DeepEqual
// with bit-exact floats.
func dump(v reflect.Value) string {
	switch v.Kind() {
	case reflect.Invalid:
		return "<invalid>"
	case reflect.Bool:
		return strconv.FormatBool(v.Bool())
	case reflect.Int, reflect.Int8, reflect.Int16, reflect.Int32, reflect.Int64:
		return strconv.FormatInt(v.Int(), 10)
	case reflect.Uint, reflect.Uint8, reflect.Uint16, reflect.Uint32, reflect.Uint64:
		return strconv.FormatUint(v.Uint(), 10) + "u"
	case reflect.Float32, reflect.Float64:
		return fmt.Sprintf("f64(%g bits=%016x)", v.Float(), math.Float64bits(v.Float()))
	case reflect.String:
		return strconv.Quote(v.String())
	case reflect.Slice:
		if v.IsNil() {
			return v.Type().String() + "(nil)"
		}
		if v.Type().Elem().Kind() == reflect.Uint8 {
			return v.Type().String() + "{hex:" + hex.EncodeToString(v.Bytes()) + "}"
		}
		parts := make([]string, v.Len())
		for i := range parts {
			parts[i] = dump(v.Index(i))
		}
		return v.Type().String() + "{" + strings.Join(parts, ", ") + "}"
	case reflect.Map:
		if v.IsNil() {
			return v.Type().String() + "(nil)"
		}
		var parts []string
		it := v.MapRange()
		for it.Next() {
			parts = append(parts, dump(it.Key())+":"+dump(it.Value()))
		}
		sort.Strings(parts)
		return v.Type().String() + "{" + strings.Join(parts, ", ") + "}"
	case reflect.Ptr:
		if v.IsNil() {
			return "(" + v.Type().String() + ")(nil)"
		}
		return "&" + dump(v.Elem())
	case reflect.Struct:
		parts := make([]string, v.NumField())
		for i := range parts {
			parts[i] = v.Type().Field(i).Name + ":" + dump(v.Field(i))
		}
		return v.Type().String() + "{" + strings.Join(parts, ", ") + "}"
	case reflect.Interface:
		if v.IsNil() {
			return "iface(nil)"
		}
		return "iface<" + v.Elem().Type().String() + ">" + dump(v.Elem())
	}
	return fmt.Sprintf("<unsupported kind %s>", v.Kind())
}

// dumpAny dumps a value that travelled through an interface{} but has static type T.
func dumpAny(x interface{}, T reflect.Type) string {
	if x == nil {
		return "iface(nil)"
	}
	v := reflect.ValueOf(x)
	if T.Kind() == reflect.Interface {
		return "iface<" + v.Type().String() + ">" + dump(v)
	}
	return dump(v)
}

// rt is the reference: JSON round trip with encoding/json into a fresh T.
func rt(x interface{}, T reflect.Type) (interface{}, bool) {
	b, err := json.Marshal(x)
	if err != nil {
		return nil, false
	}
	p := reflect.New(T)
	if err := json.Unmarshal(b, p.Interface()); err != nil {
		return nil, false
	}
	return p.Elem().Interface(), true
}

type expect struct {
	ok   bool   // the value is serialisable (the case counts)
	dump string // canonical form of the expected received value
	json string // the value as JSON text, for messages
}

var (
	argExp   [nAllType][]expect // what a handler must receive for vals[t][i] passed as parameter
	resExp   [nAllType][]expect // what a caller must receive for vals[t][i] returned by the handler
	zeroDump [nAllType]string
)

func init() {
	for t := 0; t < nAllType; t++ {
		T := typeRT[t]
		zeroDump[t] = dumpAny(reflect.Zero(T).Interface(), T)
		for _, v := range vals[t] {
			var a, r expect
			jb, jerr := json.Marshal(v)
			a.json, r.json = string(jb), string(jb)
			if jerr != nil {
				a.json, r.json = fmt.Sprintf("%#v", v), fmt.Sprintf("%#v", v)
			}
			// result side: always the plain JSON round trip
			if x, ok := rt(v, T); ok {
				r.ok, r.dump = true, dumpAny(x, T)
			}
			switch t {
			case tRawPar:
				// the bytes are sent as the params member verbatim; the round trip of raw JSON is
				// that of json.RawMessage
				a.json = string(v.(jsonrpc.RawParams))
				if v.(jsonrpc.RawParams) == nil {
					a.json = "<nil RawParams>"
				}
				if x, ok := rt(json.RawMessage(v.(jsonrpc.RawParams)), typeRT[11]); ok {
					a.ok, a.dump = true, dumpAny(jsonrpc.RawParams(x.(json.RawMessage)), T)
				}
			case tShape, tPt:
				enc, dec := encShape, decShape
				if t == tPt {
					enc, dec = encPt, decPt
				}
				a.json = fmt.Sprintf("%#v", v)
				ev, err := enc(reflect.ValueOf(v))
				if err != nil {
					break
				}
				wb, err := json.Marshal(ev.Interface())
				if err != nil {
					break
				}
				dv, err := dec(context.Background(), wb)
				if err != nil {
					break
				}
				a.ok, a.dump = true, dumpAny(dv.Interface(), T)
			default:
				a = r
			}
			argExp[t] = append(argExp[t], a)
			resExp[t] = append(resExp[t], r)
		}
	}
}

// ---------------------------------------------------------------------------------------------
// Cases
// ---------------------------------------------------------------------------------------------

type outcome struct {
	val  int // index into vals[Res], -1: zero value / no value
	fail bool
}

func (o outcome) String() string {
	s := "return"
	if o.val >= 0 {
		s += fmt.Sprintf(" value#%d", o.val)
	}
	if o.fail {
		s += " +error"
	}
	return s
}

func (s *spec) outcomes() []outcome {
	switch s.Shape {
	case shNone:
		return []outcome{{-1, false}}
	case shError:
		return []outcome{{-1, false}, {-1, true}}
	case shValue:
		var o []outcome
		for i := range vals[s.Res] {
			o = append(o, outcome{i, false})
		}
		return o
	default:
		var o []outcome
		for i := range vals[s.Res] {
			o = append(o, outcome{i, false})
		}
		o = append(o, outcome{-1, true})
		for i := range vals[s.Res] {
			o = append(o, outcome{i, true})
		}
		return o
	}
}

func (s *spec) nTuples() int {
	n := 1
	for _, p := range s.Params {
		n *= len(vals[p])
	}
	return n
}

// tuple decodes odometer position t (last parameter fastest).
func (s *spec) tuple(t int) []int {
	out := make([]int, len(s.Params))
	for i := len(s.Params) - 1; i >= 0; i-- {
		n := len(vals[s.Params[i]])
		out[i] = t % n
		t /= n
	}
	return out
}

type caseT struct {
	tuple []int
	oc    outcome
	key   string
}

const (
	modeProduct = iota // all tuples x all outcomes
	modeCycle          // all tuples, all outcomes, outcomes cycling along the tuples
	modeReduced        // every value of every parameter and every outcome at least once
)

func (s *spec) cases(mode int) []caseT {
	ocs := s.outcomes()
	nt := s.nTuples()
	var out []caseT
	mk := func(t, o int) {
		out = append(out, caseT{s.tuple(t), ocs[o], fmt.Sprintf("%s/%d/%d", s.Name, t, o)})
	}
	switch mode {
	case modeProduct:
		for t := 0; t < nt; t++ {
			for o := range ocs {
				mk(t, o)
			}
		}
	case modeCycle:
		n := max(nt, len(ocs))
		for i := 0; i < n; i++ {
			mk(i%nt, (i+i/len(ocs))%len(ocs))
		}
	case modeReduced:
		n := len(ocs)
		for _, p := range s.Params {
			n = max(n, len(vals[p]))
		}
		for i := 0; i < n; i++ {
			// diagonal tuple: position k takes value i mod |V_k|
			t := 0
			for _, p := range s.Params {
				t = t*len(vals[p]) + i%len(vals[p])
			}
			mk(t, i%len(ocs))
		}
	}
	return out
}

// ---------------------------------------------------------------------------------------------
// Environment: one server + one handler + one client per transport, owned by one goroutine
// ---------------------------------------------------------------------------------------------

type formatter struct {
	name string
	fn   jsonrpc.MethodNameFormatter
}

var formatters = []formatter{
	{"default(ns.Method)", jsonrpc.NewMethodNameFormatter(true, jsonrpc.OriginalCase)},
	{"ns.lowerFirst", jsonrpc.NewMethodNameFormatter(true, jsonrpc.LowerFirstCharCase)},
	{"noNS.Original", jsonrpc.NewMethodNameFormatter(false, jsonrpc.OriginalCase)},
	{"noNS.lowerFirst", jsonrpc.NewMethodNameFormatter(false, jsonrpc.LowerFirstCharCase)},
	{"custom(ns_method)", func(ns, m string) string { return ns + "_" + m }},
}

type decoy struct{}

func (*decoy) Trap() {}

type env struct {
	h       *H
	ts      *httptest.Server
	fns     map[string][]reflect.Value // transport -> per-spec client function
	closers []func()
}

func newEnv(f formatter, transports []string, specs []spec) (*env, error) {
	e := &env{h: &H{}, fns: map[string][]reflect.Value{}}
	srv := jsonrpc.NewServer(
		jsonrpc.WithServerMethodNameFormatter(f.fn),
		jsonrpc.WithServerPingInterval(0),
		jsonrpc.WithParamDecoder(new(Shape), decShape),
		jsonrpc.WithParamDecoder(new(Pt), decPt),
	)
	srv.Register(namespace, e.h)
	// Every method name of the matrix is also registered as an ALIAS of a decoy method in another
	// namespace. A direct name must win over an alias of the same spelling, so on a correct
	// library this changes nothing; if dispatch ever prefers the alias, the addressed handler
	// does not run and the oracle reports it.
	srv.Register("Decoy", &decoy{})
	for i := range specs {
		srv.AliasMethod(f.fn(namespace, specs[i].Name), f.fn("Decoy", "Trap"))
	}
	e.ts = httptest.NewServer(srv)
	addr := e.ts.Listener.Addr().String()
	for _, tr := range transports {
		ptrs := make([]reflect.Value, len(specs))
		outs := make([]interface{}, len(specs))
		for i := range specs {
			st := reflect.StructOf([]reflect.StructField{{Name: specs[i].Name, Type: specs[i].funcType()}})
			ptrs[i] = reflect.New(st)
			outs[i] = ptrs[i].Interface()
		}
		opts := []jsonrpc.Option{
			jsonrpc.WithMethodNameFormatter(f.fn),
			jsonrpc.WithParamEncoder(new(Shape), encShape),
			jsonrpc.WithParamEncoder(new(Pt), encPt),
		}
		var closer jsonrpc.ClientCloser
		var err error
		switch tr {
		case "custom":
			closer, err = jsonrpc.NewCustomClient(namespace, outs, func(ctx context.Context, body []byte) (io.ReadCloser, error) {
				pr, pw := io.Pipe()
				go func() {
					defer pw.Close()
					srv.HandleRequest(ctx, bytes.NewReader(body), pw)
				}()
				return pr, nil
			}, opts...)
		case "http":
			opts = append(opts, jsonrpc.WithHTTPClient(e.ts.Client()))
			closer, err = jsonrpc.NewMergeClient(context.Background(), "http://"+addr, namespace, outs, nil, opts...)
		case "ws":
			opts = append(opts, jsonrpc.WithPingInterval(0), jsonrpc.WithNoReconnect())
			closer, err = jsonrpc.NewMergeClient(context.Background(), "ws://"+addr, namespace, outs, nil, opts...)
		default:
			err = fmt.Errorf("unknown transport %q", tr)
		}
		if err != nil {
			e.close()
			return nil, fmt.Errorf("%s client: %w", tr, err)
		}
		e.closers = append(e.closers, closer)
		fns := make([]reflect.Value, len(specs))
		for i := range specs {
			fns[i] = ptrs[i].Elem().Field(0)
		}
		e.fns[tr] = fns
	}
	return e, nil
}

func (e *env) close() {
	for _, c := range e.closers {
		c()
	}
	e.ts.Close()
}

// ---------------------------------------------------------------------------------------------
// Driver + oracle
// ---------------------------------------------------------------------------------------------

func trunc(s string, n int) string {
	if len(s) <= n {
		return s
	}
	return s[:n] + "...(+" + strconv.Itoa(len(s)-n) + ")"
}

type viol struct {
	scenario string
	class    string
	input    map[string]interface{}
	msg      string
}

type job struct {
	fmtIdx     int
	shard      int
	nShards    int
	transports []string
	modeOf     func(*spec) (int, bool) // enumeration mode per spec; false = spec not in this tier/formatter

	// results
	viols   []viol
	samples []interface{}
	skipped int
	evals   int
	err     error

	// watchdog
	progress atomic.Int64
	current  atomic.Value // string
	done     atomic.Bool
}

type triple struct{ val, errStr, errType string }

func argsJSON(s *spec, tuple []int) string {
	parts := make([]string, len(tuple))
	for i, vi := range tuple {
		parts[i] = argExp[s.Params[i]][vi].json
	}
	return trunc("["+strings.Join(parts, ",")+"]", 200)
}

func (j *job) run(c *rep.Collector, specs []spec) {
	defer j.done.Store(true)
	f := formatters[j.fmtIdx]
	e, err := newEnv(f, j.transports, specs)
	if err != nil {
		j.err = err
		return
	}
	defer e.close()
	bg := reflect.ValueOf(context.Background())

	for si := range specs {
		s := &specs[si]
		if si%j.nShards != j.shard {
			continue
		}
		mode, ok := j.modeOf(s)
		if !ok {
			continue
		}
		sig := s.funcType().String()
		failErr := errors.New("boom:" + s.Name)
		for ci, cs := range s.cases(mode) {
			// serialisable?
			serialisable := true
			for i, vi := range cs.tuple {
				if !argExp[s.Params[i]][vi].ok {
					serialisable = false
				}
			}
			if cs.oc.val >= 0 && !resExp[s.Res][cs.oc.val].ok {
				serialisable = false
			}
			if !serialisable {
				j.skipped++
				continue
			}
			// call arguments
			var args []reflect.Value
			if s.Ctx {
				args = append(args, bg)
			}
			for i, vi := range cs.tuple {
				v := vals[s.Params[i]][vi]
				if v == nil {
					args = append(args, reflect.Zero(typeRT[s.Params[i]]))
				} else {
					args = append(args, reflect.ValueOf(v))
				}
			}
			var outVal interface{}
			if cs.oc.val >= 0 {
				outVal = vals[s.Res][cs.oc.val]
			}
			var outErr error
			if cs.oc.fail {
				outErr = failErr
			}
			aj := argsJSON(s, cs.tuple)
			triples := make([]triple, len(j.transports))
			completed := make([]bool, len(j.transports))

			for ti, tr := range j.transports {
				desc := fmt.Sprintf("sig=%s args=%s outcome=%q transport=%s formatter=%s", sig, aj, cs.oc.String(), tr, f.name)
				j.current.Store(desc)
				input := map[string]interface{}{"method": s.Name, "signature": sig, "args": aj, "outcome": cs.oc.String(), "transport": tr, "formatter": f.name}
				bad := func(class, format string, a ...interface{}) {
					j.viols = append(j.viols, viol{tr, class, input, class + ": " + desc + ": " + fmt.Sprintf(format, a...)})
				}

				e.h.program(outVal, outErr)
				outs := e.fns[tr][si].Call(args)
				ran := e.h.take()
				j.progress.Add(1)
				j.evals++
				c.Case(cs.key, true, tr+"/"+f.name+"/"+s.Kind)
				if j.shard == 0 && ci == 0 && ti == 0 && si%97 == 0 {
					j.samples = append(j.samples, input)
				}

				// what the caller got
				var gotVal, gotErrStr, gotErrType string
				var gotErr error
				k := 0
				if s.Res >= 0 {
					gotVal = dumpAny(outs[k].Interface(), typeRT[s.Res])
					k++
				}
				if s.Shape == shError || s.Shape == shValErr {
					if !outs[k].IsNil() {
						gotErr = outs[k].Interface().(error)
						gotErrStr, gotErrType = gotErr.Error(), fmt.Sprintf("%T", gotErr)
					}
				}
				triples[ti] = triple{gotVal, gotErrStr, gotErrType}
				completed[ti] = true

				// (1) exactly the addressed handler ran, exactly once
				if len(ran) != 1 || ran[0].idx != s.Idx {
					var who []string
					for _, r := range ran {
						who = append(who, fmt.Sprintf("M%04d", r.idx))
					}
					cls := "handler-not-run"
					if len(ran) > 0 {
						cls = "wrong-handler-or-count"
					}
					paramTypes := make([]string, len(s.Params))
					var nilIface []int
					for i, p := range s.Params {
						paramTypes[i] = typeNames[p]
						if typeRT[p].Kind() == reflect.Interface && vals[p][cs.tuple[i]] == nil {
							nilIface = append(nilIface, i)
						}
					}
					note := ""
					if len(ran) == 0 && len(nilIface) > 0 {
						// sub-class only; the oracle is the same
						cls = "handler-not-run/nil-interface-arg"
						note = fmt.Sprintf("; nil interface-typed argument at position %v", nilIface)
					}
					bad(cls, "expected handler %s to run exactly once, ran %v (caller got value=%s err=%q); param types %v%s",
						s.Name, who, trunc(gotVal, 200), trunc(gotErrStr, 300), paramTypes, note)
					continue
				}
				// (2) arguments
				if len(ran[0].args) != len(s.Params) {
					bad("arg-count", "expected %d recorded arguments, got %d", len(s.Params), len(ran[0].args))
					continue
				}
				for i, vi := range cs.tuple {
					want := argExp[s.Params[i]][vi].dump
					got := dumpAny(ran[0].args[i], typeRT[s.Params[i]])
					if got != want {
						bad("arg-mismatch", "param %d (%s): expected handler to receive %s, got %s", i, typeNames[s.Params[i]], trunc(want, 300), trunc(got, 300))
					}
				}
				// (3) results
				if cs.oc.fail {
					if gotErr == nil {
						bad("missing-error", "handler returned error %q, caller got a nil error (value=%s)", failErr, trunc(gotVal, 200))
					}
					if s.Res >= 0 && gotVal != zeroDump[s.Res] {
						bad("nonzero-value-with-error", "handler failed: expected zero value %s, got %s", zeroDump[s.Res], trunc(gotVal, 300))
					}
				} else {
					if gotErr != nil {
						bad("unexpected-error", "handler succeeded, expected nil error, got %s %q", gotErrType, trunc(gotErrStr, 300))
					} else if s.Res >= 0 {
						want := zeroDump[s.Res]
						if cs.oc.val >= 0 {
							want = resExp[s.Res][cs.oc.val].dump
						}
						if gotVal != want {
							bad("result-mismatch", "result (%s): expected %s, got %s", typeNames[s.Res], trunc(want, 300), trunc(gotVal, 300))
						}
					}
				}
			}
			// (4) all transports agree
			for ti := 1; ti < len(j.transports); ti++ {
				if completed[0] && completed[ti] && triples[ti] != triples[0] {
					desc := fmt.Sprintf("sig=%s args=%s outcome=%q transport=%s-vs-%s formatter=%s", sig, aj, cs.oc.String(), j.transports[0], j.transports[ti], f.name)
					j.viols = append(j.viols, viol{"cross-transport", "cross-transport",
						map[string]interface{}{"method": s.Name, "signature": sig, "args": aj, "outcome": cs.oc.String(), "transport": j.transports[0] + "-vs-" + j.transports[ti], "formatter": f.name},
						fmt.Sprintf("cross-transport: %s: expected identical (value, error, error type); %s gave (%s, %q, %s), %s gave (%s, %q, %s)", desc,
							j.transports[0], trunc(triples[0].val, 200), trunc(triples[0].errStr, 200), triples[0].errType,
							j.transports[ti], trunc(triples[ti].val, 200), trunc(triples[ti].errStr, 200), triples[ti].errType)})
				}
			}
		}
	}
}

func TestC01(t *testing.T) {
	specs := matrix()

	// the generated handler must be exactly the matrix
	ht := reflect.TypeOf(&H{})
	if ht.NumMethod() != len(specs) {
		t.Fatalf("methods_gen_test.go is stale: handler has %d exported methods, matrix has %d (regenerate, see file header)", ht.NumMethod(), len(specs))
	}
	for i := range specs {
		m, ok := ht.MethodByName(specs[i].Name)
		if !ok {
			t.Fatalf("methods_gen_test.go is stale: no method %s", specs[i].Name)
		}
		want := specs[i].funcType()
		var in, out []reflect.Type
		for k := 1; k < m.Type.NumIn(); k++ {
			in = append(in, m.Type.In(k))
		}
		for k := 0; k < m.Type.NumOut(); k++ {
			out = append(out, m.Type.Out(k))
		}
		if got := reflect.FuncOf(in, out, false); got != want {
			t.Fatalf("methods_gen_test.go is stale: %s is %s, matrix says %s", specs[i].Name, got, want)
		}
	}

	c := rep.New("C01")
	c.SetMaxViolations(60)
	thorough := rep.Tier() == "thorough"

	transports := []string{"custom", "http"}
	if thorough {
		transports = []string{"custom", "http", "ws"}
	}
	fullMode := func(s *spec) (int, bool) {
		switch s.Kind {
		case "a0", "a1", "raw":
			return modeProduct, true
		case "codec":
			if len(s.Params) <= 1 {
				return modeProduct, true
			}
			return modeCycle, true
		case "a2":
			if thorough {
				return modeProduct, true
			}
			return modeCycle, true
		case "a3":
			return modeCycle, thorough
		}
		return 0, false
	}
	reducedMode := func(s *spec) (int, bool) {
		switch s.Kind {
		case "a0", "a1", "raw", "codec":
			return modeReduced, true
		}
		return 0, false
	}

	nShards := 3
	var jobs []*job
	for fi := range formatters {
		mode := fullMode
		shards := nShards
		if !thorough && fi > 0 {
			mode, shards = reducedMode, 1
		}
		for sh := 0; sh < shards; sh++ {
			jobs = append(jobs, &job{fmtIdx: fi, shard: sh, nShards: shards, transports: transports, modeOf: mode})
		}
	}

	workers := min(runtime.NumCPU(), len(jobs))
	if workers < 1 {
		workers = 1
	}
	start := time.Now()
	queue := make(chan *job, len(jobs))
	for _, j := range jobs {
		j.current.Store("")
		queue <- j
	}
	close(queue)
	var wg sync.WaitGroup
	var running sync.Map
	for w := 0; w < workers; w++ {
		wg.Add(1)
		go func() {
			defer wg.Done()
			for j := range queue {
				running.Store(j, true)
				j.run(c, specs)
				running.Delete(j)
			}
		}()
	}
	allDone := make(chan struct{})
	go func() { wg.Wait(); close(allDone) }()

	// watchdog: a call that never returns is a violation of "hands the caller the result"
	const stall = 60 * time.Second
	last := map[*job]int64{}
	lastChange := map[*job]time.Time{}
	tick := time.NewTicker(2 * time.Second)
	defer tick.Stop()
wait:
	for {
		select {
		case <-allDone:
			break wait
		case now := <-tick.C:
			var hung *job
			running.Range(func(k, _ interface{}) bool {
				j := k.(*job)
				p := j.progress.Load()
				if lc, ok := lastChange[j]; !ok || p != last[j] {
					last[j], lastChange[j] = p, now
				} else if now.Sub(lc) > stall && !j.done.Load() {
					hung = j
					return false
				}
				return true
			})
			if hung != nil {
				cur, _ := hung.current.Load().(string)
				c.Violate("hang", cur, "call-hang: %s: expected the call to return, no return within %s", cur, stall)
				c.Write(t, false, "aborted: a call did not return")
				t.Fatalf("call did not return within %s: %s", stall, cur)
			}
		}
	}

	// merge deterministically (job order = formatter, shard; inside a job = matrix order)
	var all []viol
	classCount := map[string]int{}
	skipped, evals := 0, 0
	var samples []interface{}
	for _, j := range jobs {
		if j.err != nil {
			t.Fatalf("environment: %v", j.err)
		}
		all = append(all, j.viols...)
		skipped += j.skipped
		evals += j.evals
		samples = append(samples, j.samples...)
	}
	// one representative of every class first, then the rest in order
	seen := map[string]bool{}
	var firsts, rest []viol
	for _, v := range all {
		classCount[v.class]++
		k := v.class + "|" + v.scenario
		if !seen[k] {
			seen[k] = true
			firsts = append(firsts, v)
		} else {
			rest = append(rest, v)
		}
	}
	for _, v := range append(firsts, rest...) {
		c.Violate(v.scenario, v.input, "%s", v.msg)
	}
	step := max(1, len(samples)/6)
	for i := 0; i < len(samples); i += step {
		c.Sample(samples[i])
	}

	nByKind := map[string]int{}
	for i := range specs {
		nByKind[specs[i].Kind]++
	}
	c.Extra("tier", rep.Tier())
	c.Extra("methods_in_matrix", nByKind)
	c.Extra("transports", transports)
	c.Extra("formatters", len(formatters))
	c.Extra("skipped_not_json_serialisable", skipped)
	c.Extra("violation_classes", classCount)
	c.Extra("wall_seconds", math.Round(time.Since(start).Seconds()*10)/10)

	rule := "signature matrix: ctx{no,yes} x arity 0..3 x results{none,value,error,(value,error)} over a 14-type alphabet " +
		"(arity<=1: all param types x all result types; arity 2: all 196 type assignments, result type rotating; arity 3: 196-row pairwise-covering Latin square), " +
		"8 RawParams shapes, 4 methods with custom param encoder/decoder pairs; all boundary-value tuples per method " +
		"(arity<=1, raw: tuples x all handler outcomes; arity 3: all tuples with all outcomes cycling along them); "
	if thorough {
		rule += "arity 2: tuples x all handler outcomes; x {custom, http, ws} x 5 method-name formatters; every call compared with the encoding/json round-trip reference and across transports"
	} else {
		rule += "quick tier: arity<=2 only (arity 2: all tuples, outcomes cycling), {custom, http}, default formatter complete, the 4 other formatters on arity<=1/raw/codec methods with an each-value covering set; " +
			"every call compared with the encoding/json round-trip reference and across transports"
	}
	c.Write(t, true, rule)
	t.Logf("tier=%s jobs=%d workers=%d calls=%d skipped=%d violations=%d classes=%v wall=%s", rep.Tier(), len(jobs), workers, evals, skipped, len(all), classCount, time.Since(start).Round(time.Millisecond))
}
