// Package rep collects what a sequential bounded-exhaustive check covered and found, and
// writes it in the shape vcheck expects ($VOUT).
package rep

import (
	"encoding/json"
	"fmt"
	"os"
	"sync"
	"testing"
)

// Violation is one failing input.
type Violation struct {
	Scenario string      `json:"scenario"`
	Input    interface{} `json:"input"`
	Messages []string    `json:"messages"`
}

// Collector accumulates coverage counters. It is safe for concurrent use.
type Collector struct {
	mu         sync.Mutex
	Prop       string
	evals      int
	distinct   map[string]struct{}
	samples    []interface{}
	violations []Violation
	maxViol    int
	extra      map[string]interface{}
	classes    map[string]int
}

func New(prop string) *Collector {
	return &Collector{Prop: prop, distinct: map[string]struct{}{}, maxViol: 40, extra: map[string]interface{}{}, classes: map[string]int{}}
}

// Tier returns "quick" or "thorough".
func Tier() string {
	if os.Getenv("VTIER") == "thorough" {
		return "thorough"
	}
	return "quick"
}

// Case counts one evaluated case. key identifies the case for distinctness; nontrivial says
// whether it counts towards distinct_nontrivial; class is a coarse label for the per-class
// tally shown in the evidence.
func (c *Collector) Case(key string, nontrivial bool, class string) {
	c.mu.Lock()
	c.evals++
	if nontrivial {
		c.distinct[key] = struct{}{}
	}
	c.classes[class]++
	c.mu.Unlock()
}

// Sample records an actual case for the evidence file (the first 6 and every 1000th).
func (c *Collector) Sample(x interface{}) {
	c.mu.Lock()
	if len(c.samples) < 6 || (c.evals%1000 == 0 && len(c.samples) < 12) {
		c.samples = append(c.samples, x)
	}
	c.mu.Unlock()
}

// Violate records a failing input. Messages should name the input so that a known-findings
// entry can match this failure and no other.
func (c *Collector) Violate(scenario string, input interface{}, format string, args ...interface{}) {
	c.mu.Lock()
	defer c.mu.Unlock()
	c.extraCount("violating_cases")
	if len(c.violations) < c.maxViol {
		c.violations = append(c.violations, Violation{Scenario: scenario, Input: input, Messages: []string{fmt.Sprintf(format, args...)}})
	}
}

func (c *Collector) extraCount(k string) {
	n, _ := c.extra[k].(int)
	c.extra[k] = n + 1
}

// SetMaxViolations changes how many violating inputs are kept (all are counted).
func (c *Collector) SetMaxViolations(n int) { c.maxViol = n }

// Extra adds a key to the coverage object.
func (c *Collector) Extra(k string, v interface{}) {
	c.mu.Lock()
	c.extra[k] = v
	c.mu.Unlock()
}

// Write emits the report. exhaustive: the stated finite space was enumerated completely.
func (c *Collector) Write(t *testing.T, exhaustive bool, rule string) {
	c.mu.Lock()
	defer c.mu.Unlock()
	cov := map[string]interface{}{
		"evaluations":         c.evals,
		"distinct_nontrivial": len(c.distinct),
		"rule":                rule,
		"samples":             c.samples,
		"exhaustive":          exhaustive,
		"classes":             c.classes,
		// every enumerated case is an execution of the real implementation compared with the
		// reference model, so the model_checking keys are the same counts
		"states":                        max(len(c.distinct), 1),
		"transitions":                   max(c.evals, 1),
		"traces_validated_against_impl": c.evals,
	}
	for k, v := range c.extra {
		cov[k] = v
	}
	out := map[string]interface{}{"coverage": cov, "violations": c.violations}
	b, _ := json.MarshalIndent(out, "", " ")
	if p := os.Getenv("VOUT"); p != "" {
		if err := os.WriteFile(p, b, 0o644); err != nil {
			t.Fatal(err)
		}
	} else {
		t.Logf("evaluations=%d distinct=%d violations=%d", c.evals, len(c.distinct), len(c.violations))
		for i, v := range c.violations {
			if i < 10 {
				t.Logf("VIOLATION %v", v.Messages)
			}
		}
	}
}
