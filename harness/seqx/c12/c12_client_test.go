package c12

import (
	"context"
	"encoding/json"
	"fmt"
	"net/http"
	"net/http/httptest"
	"strings"
	"sync"
	"time"

	jsonrpc "github.com/filecoin-project/go-jsonrpc"
	"github.com/gorilla/websocket"

	"verifharness/seqx/rep"
)

// Client-side dispatch (reverse handlers registered with WithClientHandler and
// WithClientHandlerAlias): the same rules as on a server, per client. Several clients live in one
// process; each has its own namespace and its own alias table, and nothing of one client's
// configuration may be visible through another.

type cliHnd struct {
	name string
	mu   *sync.Mutex
	log  *[]string
}

func (h *cliHnd) Foo() string {
	h.mu.Lock()
	*h.log = append(*h.log, h.name)
	h.mu.Unlock()
	return h.name
}

type cliCfg struct {
	ns    string
	alias map[string]string
}

func (cc cliCfg) String() string { return fmt.Sprintf("{ns:%s alias:%v}", cc.ns, cc.alias) }

// model: which handler (if any) of THIS client runs for a method string
func (cc cliCfg) runs(method string) bool {
	if method == cc.ns+".Foo" {
		return true
	}
	if to, ok := cc.alias[method]; ok && to == cc.ns+".Foo" {
		return true
	}
	return false
}

// rawPeer is a bare WebSocket endpoint: every connection is handed to the test.
type rawPeer struct {
	ts    *httptest.Server
	conns chan *websocket.Conn
}

func newRawPeer() *rawPeer {
	p := &rawPeer{conns: make(chan *websocket.Conn, 16)}
	up := websocket.Upgrader{}
	p.ts = httptest.NewServer(http.HandlerFunc(func(w http.ResponseWriter, r *http.Request) {
		c, err := up.Upgrade(w, r, nil)
		if err != nil {
			return
		}
		p.conns <- c
	}))
	return p
}

func clientSideDispatch(c *rep.Collector, sm *sampler) int {
	cfgs := []cliCfg{
		{"R", nil},
		{"R", map[string]string{"legacy": "R.Foo"}},
		{"Q", nil},
		{"Q", map[string]string{"legacy": "Q.Foo", "R.Foo": "Q.Foo"}},
		{"R", map[string]string{"legacy": "R.Missing"}},
	}
	methods := []string{"R.Foo", "Q.Foo", "legacy", "Foo", "R.Missing", "r.foo"}
	n := 0
	type empty struct{}
	for i, a := range cfgs {
		for j, b := range cfgs {
			if i == j {
				continue
			}
			// two clients in one process, created in this order
			peer := newRawPeer()
			var mu sync.Mutex
			var log []string
			var closers []jsonrpc.ClientCloser
			var conns []*websocket.Conn
			pair := []cliCfg{a, b}
			ok := true
			for k, cc := range pair {
				opts := []jsonrpc.Option{jsonrpc.WithPingInterval(0), jsonrpc.WithNoReconnect(),
					jsonrpc.WithClientHandler(cc.ns, &cliHnd{name: fmt.Sprintf("client%d(%s)", k, cc.ns), mu: &mu, log: &log})}
				for al, to := range cc.alias {
					opts = append(opts, jsonrpc.WithClientHandlerAlias(al, to))
				}
				var out empty
				cl, err := jsonrpc.NewMergeClient(context.Background(), "ws"+strings.TrimPrefix(peer.ts.URL, "http"), "X", []interface{}{&out}, nil, opts...)
				if err != nil {
					sm.violate("client-dispatch/setup", "client-dispatch", map[string]interface{}{"config": cc.String()}, "client-dispatch: cannot create client %s: %v", cc, err)
					ok = false
					break
				}
				closers = append(closers, cl)
				select {
				case cn := <-peer.conns:
					conns = append(conns, cn)
				case <-time.After(20 * time.Second):
					ok = false
				}
			}
			if ok {
				for k, cc := range pair {
					for mi, m := range methods {
						mu.Lock()
						log = log[:0]
						mu.Unlock()
						mj, _ := json.Marshal(m)
						req := fmt.Sprintf(`{"jsonrpc":"2.0","id":%d,"method":%s,"params":[]}`, 100+mi, mj)
						conns[k].WriteMessage(websocket.TextMessage, []byte(req))
						conns[k].SetReadDeadline(time.Now().Add(20 * time.Second))
						_, raw, err := conns[k].ReadMessage()
						mu.Lock()
						ran := append([]string(nil), log...)
						mu.Unlock()
						want := cc.runs(m)
						id := fmt.Sprintf("first=%s second=%s target=client%d method=%q", a, b, k, m)
						c.Case(hkey("client-dispatch/"+id), true, fmt.Sprintf("client-dispatch/run=%v", want))
						n++
						var rp struct {
							Result *string          `json:"result"`
							Error  *json.RawMessage `json:"error"`
						}
						bad := ""
						switch {
						case err != nil:
							bad = fmt.Sprintf("no reply: %v", err)
						case json.Unmarshal(raw, &rp) != nil:
							bad = fmt.Sprintf("malformed reply %q", raw)
						case want && (len(ran) != 1 || ran[0] != fmt.Sprintf("client%d(%s)", k, cc.ns) || rp.Result == nil || *rp.Result != ran[0]):
							bad = fmt.Sprintf("want exactly this client's handler to run and answer; ran %v, reply %s", ran, raw)
						case !want && (len(ran) != 0 || rp.Error == nil || !strings.Contains(string(*rp.Error), "-32601")):
							bad = fmt.Sprintf("want method-not-found and no handler run; ran %v, reply %s", ran, raw)
						}
						if bad != "" {
							sm.violate(fmt.Sprintf("client-dispatch/run=%v", want), "client-dispatch", map[string]interface{}{"first": a.String(), "second": b.String(), "target": k, "method": m},
								"client-dispatch: %s: %s", id, bad)
						}
					}
				}
			}
			for _, cl := range closers {
				cl()
			}
			for _, cn := range conns {
				cn.Close()
			}
			peer.ts.Close()
		}
	}
	return n
}
