// C12 — dispatch by formatted name, then alias; bad arity or types never run a handler.
// Bounded-exhaustive enumeration against a map-based reference model (DESIGN.md §3 C12).
//
// Three scenarios:
//
//	dispatch          registrations x formatter x alias table x candidate method string, raw
//	                  requests through RPCServer.HandleRequest
//	client-agreement  generated clients (NewCustomClient) with every formatter / namespace and
//	                  with rpc_method tags against every server configuration
//	arity-types       methods of arity 0..3 over an 11-type alphabet; params arrays of length
//	                  0..k+1, every JSON kind per position, non-array params
package c12

import (
	"bytes"
	"context"
	"encoding/json"
	"fmt"
	"hash/fnv"
	"io"
	"reflect"
	"strings"
	"testing"

	jsonrpc "github.com/filecoin-project/go-jsonrpc"

	"verifharness/seqx/rep"
)

// ---------------------------------------------------------------------------------------
// universe
// ---------------------------------------------------------------------------------------

var namespaces = []string{"A", "B", ""}
var allMethods = []string{"Foo", "Bar", "Baz"}
var methodsOf = map[string][]string{"T1": {"Foo", "Bar"}, "T2": {"Foo", "Baz"}}

// rec is the shared execution log of one server configuration: every handler method appends
// its identity, so "which handler ran, how often" is read off directly.
type rec struct{ log []string }

func (r *rec) hit(id string) string { r.log = append(r.log, id); return id }

type T1 struct {
	r  *rec
	id string
}

func (h *T1) Foo() string { return h.r.hit(h.id + ".Foo") }
func (h *T1) Bar() string { return h.r.hit(h.id + ".Bar") }

type T2 struct {
	r  *rec
	id string
}

func (h *T2) Foo() string { return h.r.hit(h.id + ".Foo") }
func (h *T2) Baz() string { return h.r.hit(h.id + ".Baz") }

// reference formatters: written independently of the library's so that a wrong built-in
// formatter shows up as a disagreement instead of being mirrored by the model
func lowerFirst(s string) string {
	if s == "" {
		return s
	}
	return strings.ToLower(s[:1]) + s[1:]
}

type fmtSpec struct {
	name string
	lib  jsonrpc.MethodNameFormatter
	ref  func(ns, m string) string
}

var formatters = []fmtSpec{
	{"builtin(ns=true,OriginalCase)", jsonrpc.NewMethodNameFormatter(true, jsonrpc.OriginalCase),
		func(ns, m string) string { return ns + "." + m }},
	{"builtin(ns=true,LowerFirstCharCase)", jsonrpc.NewMethodNameFormatter(true, jsonrpc.LowerFirstCharCase),
		func(ns, m string) string { return ns + "." + lowerFirst(m) }},
	{"builtin(ns=false,OriginalCase)", jsonrpc.NewMethodNameFormatter(false, jsonrpc.OriginalCase),
		func(ns, m string) string { return m }},
	{"builtin(ns=false,LowerFirstCharCase)", jsonrpc.NewMethodNameFormatter(false, jsonrpc.LowerFirstCharCase),
		func(ns, m string) string { return lowerFirst(m) }},
	{"custom(ns_method)", func(ns, m string) string { return ns + "_" + m },
		func(ns, m string) string { return ns + "_" + m }},
}

type reg struct{ ns, typ string }

func (r reg) String() string { return fmt.Sprintf("(%q,%s)", r.ns, r.typ) }

var allRegs = []reg{{"A", "T1"}, {"A", "T2"}, {"B", "T1"}, {"B", "T2"}, {"", "T1"}, {"", "T2"}}

// regSeqs: every sequence of distinct registrations of length 0..max, shortest first.
func regSeqs(max int) [][]reg {
	out := [][]reg{{}}
	var rec func(cur []int, n int)
	rec = func(cur []int, n int) {
		if len(cur) == n {
			s := make([]reg, n)
			for i, x := range cur {
				s[i] = allRegs[x]
			}
			out = append(out, s)
			return
		}
	next:
		for i := range allRegs {
			for _, x := range cur {
				if x == i {
					continue next
				}
			}
			rec(append(append([]int{}, cur...), i), n)
		}
	}
	for n := 1; n <= max; n++ {
		rec(nil, n)
	}
	return out
}

// universeNames: every formatted name of the universe under every formatter, in formatter
// order, deduplicated.
func universeNames() []string {
	var out []string
	seen := map[string]bool{}
	for _, f := range formatters {
		for _, ns := range namespaces {
			for _, m := range allMethods {
				n := f.ref(ns, m)
				if !seen[n] {
					seen[n] = true
					out = append(out, n)
				}
			}
		}
	}
	return out
}

func swapFirst(s string) string {
	if s == "" {
		return s
	}
	c := s[:1]
	if strings.ToLower(c) != c {
		return strings.ToLower(c) + s[1:]
	}
	return strings.ToUpper(c) + s[1:]
}

// baseCandidates: universe names, their case variants, and the malformed spellings.
func baseCandidates() []string {
	var out []string
	seen := map[string]bool{}
	add := func(s string) {
		if !seen[s] {
			seen[s] = true
			out = append(out, s)
		}
	}
	u := universeNames()
	for _, n := range u {
		add(n)
	}
	for _, n := range u {
		add(strings.ToLower(n))
		add(strings.ToUpper(n))
		add(swapFirst(n))
	}
	for _, s := range []string{"A.", ".Foo", "A.B.Foo", "", "A", "B.", ".", "_", "Foo.", "A..Foo", " A.Foo", "A.Foo ", "A.Foo.Bar", "B.A.Foo", "A_B_Foo"} {
		add(s)
	}
	return out
}

// ---------------------------------------------------------------------------------------
// reference model
// ---------------------------------------------------------------------------------------

type model struct {
	table map[string]string // formatted name -> handler identity
	names []string          // direct names in first-registration order
	alias map[string]string
}

func handlerID(i int, r reg) string { return fmt.Sprintf("#%d(%q,%s)", i, r.ns, r.typ) }

func newModel(regs []reg, f fmtSpec) *model {
	md := &model{table: map[string]string{}, alias: map[string]string{}}
	for i, r := range regs {
		for _, m := range methodsOf[r.typ] {
			n := f.ref(r.ns, m)
			if _, ok := md.table[n]; !ok {
				md.names = append(md.names, n)
			}
			md.table[n] = handlerID(i, r) + "." + m // later registration wins
		}
	}
	return md
}

// lookup: direct hit, else exactly one alias hop whose target must itself be a direct name.
func (md *model) lookup(m string) (id string, how string, ok bool) {
	if id, ok := md.table[m]; ok {
		return id, "direct", true
	}
	if o, ok := md.alias[m]; ok {
		if id, ok := md.table[o]; ok {
			return id, "alias", true
		}
		return "", "alias-dangling", false
	}
	return "", "unknown", false
}

type aliasTab struct {
	name        string
	pairs       [][2]string // alias -> original, in AliasMethod call order
	beforeRegs  bool        // AliasMethod called before Register
	clientCheck bool        // also used for the client-agreement scenario
}

func (a aliasTab) String() string {
	var p []string
	for _, x := range a.pairs {
		p = append(p, fmt.Sprintf("%q->%q", x[0], x[1]))
	}
	return fmt.Sprintf("%s[%s] alias-before-register=%v", a.name, strings.Join(p, " "), a.beforeRegs)
}

const missingName = "No.Such"

// aliasTables builds the alias tables for one (registrations, formatter) pair from the direct
// names the model knows. No table contains the same alias twice.
func aliasTables(md *model, f fmtSpec, univ []string) []aliasTab {
	names := md.names
	x0, x1 := f.ref("A", "Foo"), f.ref("A", "Bar") // dangling when nothing is registered
	if len(names) > 0 {
		x0 = names[0]
		x1 = names[len(names)-1]
	}
	// a name that is valid under some other formatter but not registered here
	decoy := missingName
	for _, n := range univ {
		if _, ok := md.table[n]; !ok {
			decoy = n
			break
		}
	}
	var each [][2]string
	for i, n := range names {
		each = append(each, [2]string{fmt.Sprintf("al%d", i), n})
	}
	var shadow [][2]string
	switch {
	case len(names) >= 2:
		for i, n := range names {
			shadow = append(shadow, [2]string{n, names[(i+1)%len(names)]})
		}
	case len(names) == 1:
		shadow = [][2]string{{names[0], missingName}}
	default:
		shadow = [][2]string{{x0, x1}}
	}
	all := [][2]string{}
	all = append(all, each...)
	all = append(all, [2]string{"gone", missingName}, [2]string{"dec", decoy})
	all = append(all, shadow...)
	all = append(all, [2]string{"al2", "al"}, [2]string{"al", x0}, [2]string{"lp", "lp"}, [2]string{"hop", "miss"}, [2]string{"miss", x1})
	if _, ok := md.table[""]; !ok {
		all = append(all, [2]string{"", x0})
	}
	return []aliasTab{
		{name: "none", clientCheck: true},
		{name: "to-existing", pairs: [][2]string{{"al", x0}}},
		{name: "to-each-existing", pairs: each},
		{name: "to-missing", pairs: [][2]string{{"al", missingName}}},
		{name: "to-other-formatter-name", pairs: [][2]string{{"al", decoy}}},
		{name: "shadowing-direct-names", pairs: shadow},
		{name: "alias-to-alias", pairs: [][2]string{{"al2", "al"}, {"al", x0}}},
		{name: "alias-to-shadowed-direct", pairs: [][2]string{{"al", x0}, {x0, x1}}},
		{name: "alias-to-missing-that-is-an-alias", pairs: [][2]string{{"al", "miss"}, {"miss", x0}}},
		{name: "self-loop", pairs: [][2]string{{"al", "al"}}},
		{name: "empty-alias", pairs: [][2]string{{"", x0}}},
		{name: "uppercase-alias", pairs: [][2]string{{"AL", x0}}},
		{name: "all", pairs: all, clientCheck: true},
		{name: "all", pairs: all, beforeRegs: true},
	}
}

// ---------------------------------------------------------------------------------------
// implementation under test
// ---------------------------------------------------------------------------------------

func buildServer(regs []reg, f fmtSpec, at aliasTab) (*jsonrpc.RPCServer, *rec) {
	srv := jsonrpc.NewServer(jsonrpc.WithServerMethodNameFormatter(f.lib))
	rc := &rec{}
	doAlias := func() {
		for _, p := range at.pairs {
			srv.AliasMethod(p[0], p[1])
		}
	}
	if at.beforeRegs {
		doAlias()
	}
	for i, r := range regs {
		id := handlerID(i, r)
		switch r.typ {
		case "T1":
			srv.Register(r.ns, &T1{r: rc, id: id})
		case "T2":
			srv.Register(r.ns, &T2{r: rc, id: id})
		}
	}
	if !at.beforeRegs {
		doAlias()
	}
	return srv, rc
}

func call(srv *jsonrpc.RPCServer, body string) (reply string) {
	var buf bytes.Buffer
	// a panic escaping HandleRequest is reported through the reply (no reply is ever valid JSON-RPC with this text)
	defer func() {
		if r := recover(); r != nil {
			reply = fmt.Sprintf("PANIC escaped HandleRequest: %v", r)
		}
	}()
	srv.HandleRequest(context.Background(), strings.NewReader(body), &buf)
	return buf.String()
}

type parsed struct {
	ok        bool // a single JSON object
	hasError  bool
	code      int64
	codeOK    bool
	hasResult bool
}

func parseReply(s string) parsed {
	var p parsed
	var m map[string]json.RawMessage
	dec := json.NewDecoder(strings.NewReader(s))
	if err := dec.Decode(&m); err != nil || m == nil {
		return p
	}
	if dec.More() {
		return p
	}
	p.ok = true
	if e, ok := m["error"]; ok && string(e) != "null" {
		p.hasError = true
		var eo struct {
			Code *int64 `json:"code"`
		}
		if json.Unmarshal(e, &eo) == nil && eo.Code != nil {
			p.code, p.codeOK = *eo.Code, true
		}
	}
	_, p.hasResult = m["result"]
	return p
}

func hkey(s string) string {
	h := fnv.New64a()
	h.Write([]byte(s))
	return string(h.Sum(nil))
}

func cfgString(regs []reg, f fmtSpec, at aliasTab) string {
	return fmt.Sprintf("registrations(in order)=%v server-formatter=%s aliases=%s", regs, f.name, at)
}

// judgeDispatch compares one observation with the model's verdict; returns the deviations.
func judgeDispatch(wantRun bool, wantID string, log []string, p parsed) []string {
	var bad []string
	if wantRun {
		if len(log) != 1 || log[0] != wantID {
			bad = append(bad, fmt.Sprintf("model says %s runs exactly once, executed=%q", wantID, log))
		}
		if !p.ok || p.hasError {
			bad = append(bad, "model says the method exists but the reply is not a success reply")
		}
	} else {
		if len(log) != 0 {
			bad = append(bad, fmt.Sprintf("model says method-not-found, yet executed=%q", log))
		}
		if !p.ok || !p.hasError || !p.codeOK || p.code != -32601 {
			bad = append(bad, "model says method-not-found but the reply is not an error with code -32601")
		}
	}
	return bad
}

// devKind is a coarse label of what was observed, used only to group violations into classes.
func devKind(log []string, p parsed) string {
	r := "reply=success"
	switch {
	case !p.ok:
		r = "reply=unparsable"
	case p.hasError && p.codeOK:
		r = fmt.Sprintf("reply=error(%d)", p.code)
	case p.hasError:
		r = "reply=error(no code)"
	}
	return fmt.Sprintf("ran=%d/%s", len(log), r)
}

// ---------------------------------------------------------------------------------------
// clients
// ---------------------------------------------------------------------------------------

type plainClient struct {
	Foo func() (string, error)
	Bar func() (string, error)
	Baz func() (string, error)
}

// staticTagged: ordinary hand-written tagged proxy struct; the field name must play no role
// (Foo is tagged with another method's name on purpose).
type staticTagged struct {
	Foo      func() (string, error) `rpc_method:"A.Bar"`
	Whatever func() (string, error) `rpc_method:"B.foo"`
	Bare     func() (string, error) `rpc_method:"Foo"`
	Under    func() (string, error) `rpc_method:"_Baz"`
	Dot      func() (string, error) `rpc_method:".Foo"`
	Alias    func() (string, error) `rpc_method:"al"`
}

// pipe is what the generated clients talk to: it hands the body to whichever server is current
// and keeps the wire traffic for the report.
type pipe struct {
	cur       *jsonrpc.RPCServer
	lastBody  string
	lastReply string
}

func (p *pipe) doRequest(ctx context.Context, body []byte) (io.ReadCloser, error) {
	p.lastBody = string(body)
	var buf bytes.Buffer
	p.cur.HandleRequest(ctx, bytes.NewReader(body), &buf)
	p.lastReply = buf.String()
	return io.NopCloser(bytes.NewReader(buf.Bytes())), nil
}

type clientInst struct {
	kind string // plain / static-tagged / dynamic-tagged
	ns   string
	f    fmtSpec
	val  reflect.Value // the struct (addressable)
}

// taggedType builds a proxy struct type with one field per name, tagged rpc_method:"<name>".
func taggedType(names []string) reflect.Type {
	ft := reflect.TypeOf((func() (string, error))(nil))
	var fields []reflect.StructField
	for i, n := range names {
		fields = append(fields, reflect.StructField{
			Name: fmt.Sprintf("F%02d", i),
			Type: ft,
			Tag:  reflect.StructTag(fmt.Sprintf(`rpc_method:%q`, n)),
		})
	}
	return reflect.StructOf(fields)
}

func buildClients(t *testing.T, p *pipe, tagNames []string) []clientInst {
	var out []clientInst
	tt := taggedType(tagNames)
	for _, ns := range namespaces {
		for _, f := range formatters {
			for _, k := range []string{"plain", "static-tagged", "dynamic-tagged"} {
				var ptr reflect.Value
				switch k {
				case "plain":
					ptr = reflect.ValueOf(&plainClient{})
				case "static-tagged":
					ptr = reflect.ValueOf(&staticTagged{})
				default:
					ptr = reflect.New(tt)
				}
				closer, err := jsonrpc.NewCustomClient(ns, []interface{}{ptr.Interface()}, p.doRequest, jsonrpc.WithMethodNameFormatter(f.lib))
				if err != nil {
					t.Fatalf("NewCustomClient(%q,%s,%s): %v", ns, f.name, k, err)
				}
				_ = closer
				out = append(out, clientInst{kind: k, ns: ns, f: f, val: ptr.Elem()})
			}
		}
	}
	return out
}

// ---------------------------------------------------------------------------------------
// arity / types
// ---------------------------------------------------------------------------------------

type S struct{ X int }

type hrec struct {
	log  *[]string
	name string
}

func (h *hrec) hit() string { *h.log = append(*h.log, h.name); return h.name }

type H0 struct{ hrec }

func (h *H0) M() string { return h.hit() }

type H1[A any] struct{ hrec }

func (h *H1[A]) M(a A) string { return h.hit() }

type H2[A, B any] struct{ hrec }

func (h *H2[A, B]) M(a A, b B) string { return h.hit() }

type H3[A, B, C any] struct{ hrec }

func (h *H3[A, B, C]) M(a A, b B, c C) string { return h.hit() }

// the same with a leading context.Context (not counted as a positional param)
type HC0 struct{ hrec }

func (h *HC0) M(ctx context.Context) string { return h.hit() }

type HC1[A any] struct{ hrec }

func (h *HC1[A]) M(ctx context.Context, a A) string { return h.hit() }

type HC2[A, B any] struct{ hrec }

func (h *HC2[A, B]) M(ctx context.Context, a A, b B) string { return h.hit() }

func rt[A any]() reflect.Type { return reflect.TypeOf((*A)(nil)).Elem() }

type alpha struct {
	label string
	t     reflect.Type
	valid string // a JSON text that decodes into t
}

var alphabet = []alpha{
	{"int", rt[int](), `1`},
	{"str", rt[string](), `"s"`},
	{"bool", rt[bool](), `true`},
	{"ints", rt[[]int](), `[1]`},
	{"map", rt[map[string]int](), `{"a":1}`},
	{"ptr", rt[*S](), `{"X":1}`},
	{"struct", rt[S](), `{"X":1}`},
	{"f64", rt[float64](), `1.5`},
	{"u64", rt[uint64](), `1`},
	{"raw", rt[json.RawMessage](), `{"r":1}`},
	{"any", rt[interface{}](), `"s"`},
}

func alphaOf(t reflect.Type) alpha {
	for _, a := range alphabet {
		if a.t == t {
			return a
		}
	}
	panic("type not in alphabet: " + t.String())
}

var jsonKinds = []string{`null`, `true`, `1`, `-1`, `1.5`, `"s"`, `[]`, `{}`}

// decodes is the reference for "decodes into the declared type": encoding/json itself.
func decodes(raw string, t reflect.Type) bool {
	return json.Unmarshal([]byte(raw), reflect.New(t).Interface()) == nil
}

type ameth struct {
	wire  string
	decl  string
	name  string
	types []reflect.Type
}

type aenv struct {
	srv     *jsonrpc.RPCServer
	log     []string
	methods []*ameth
}

func (x *aenv) add(h interface{}, r *hrec, ctx bool, ts ...reflect.Type) {
	label := fmt.Sprintf("h%d", len(ts))
	decl := "M("
	if ctx {
		label = fmt.Sprintf("hc%d", len(ts))
		decl = "M(context.Context"
	}
	for i, t := range ts {
		label += "_" + alphaOf(t).label
		if i > 0 || ctx {
			decl += ", "
		}
		decl += t.String()
	}
	decl += ")"
	r.log = &x.log
	r.name = label
	x.srv.Register(label, h)
	x.methods = append(x.methods, &ameth{wire: label + ".M", decl: decl, name: label, types: ts})
}

func mk1[A any](x *aenv)  { h := &H1[A]{}; x.add(h, &h.hrec, false, rt[A]()) }
func mkc1[A any](x *aenv) { h := &HC1[A]{}; x.add(h, &h.hrec, true, rt[A]()) }
func mk2[A, B any](x *aenv) {
	h := &H2[A, B]{}
	x.add(h, &h.hrec, false, rt[A](), rt[B]())
}
func mkc2[A, B any](x *aenv) {
	h := &HC2[A, B]{}
	x.add(h, &h.hrec, true, rt[A](), rt[B]())
}
func mk3[A, B, C any](x *aenv) {
	h := &H3[A, B, C]{}
	x.add(h, &h.hrec, false, rt[A](), rt[B](), rt[C]())
}

// The fan-out over the alphabet has to be spelled out: Go cannot iterate over types.
func all1(x *aenv) {
	mk1[int](x)
	mk1[string](x)
	mk1[bool](x)
	mk1[[]int](x)
	mk1[map[string]int](x)
	mk1[*S](x)
	mk1[S](x)
	mk1[float64](x)
	mk1[uint64](x)
	mk1[json.RawMessage](x)
	mk1[interface{}](x)
}
func allc1(x *aenv) {
	mkc1[int](x)
	mkc1[string](x)
	mkc1[bool](x)
	mkc1[[]int](x)
	mkc1[map[string]int](x)
	mkc1[*S](x)
	mkc1[S](x)
	mkc1[float64](x)
	mkc1[uint64](x)
	mkc1[json.RawMessage](x)
	mkc1[interface{}](x)
}
func row2[A any](x *aenv) {
	mk2[A, int](x)
	mk2[A, string](x)
	mk2[A, bool](x)
	mk2[A, []int](x)
	mk2[A, map[string]int](x)
	mk2[A, *S](x)
	mk2[A, S](x)
	mk2[A, float64](x)
	mk2[A, uint64](x)
	mk2[A, json.RawMessage](x)
	mk2[A, interface{}](x)
}
func all2(x *aenv) {
	row2[int](x)
	row2[string](x)
	row2[bool](x)
	row2[[]int](x)
	row2[map[string]int](x)
	row2[*S](x)
	row2[S](x)
	row2[float64](x)
	row2[uint64](x)
	row2[json.RawMessage](x)
	row2[interface{}](x)
}
func rowc2[A any](x *aenv) {
	mkc2[A, int](x)
	mkc2[A, string](x)
	mkc2[A, bool](x)
	mkc2[A, []int](x)
	mkc2[A, map[string]int](x)
	mkc2[A, *S](x)
	mkc2[A, S](x)
	mkc2[A, float64](x)
	mkc2[A, uint64](x)
	mkc2[A, json.RawMessage](x)
	mkc2[A, interface{}](x)
}
func allc2(x *aenv) {
	rowc2[int](x)
	rowc2[string](x)
	rowc2[bool](x)
	rowc2[[]int](x)
	rowc2[map[string]int](x)
	rowc2[*S](x)
	rowc2[S](x)
	rowc2[float64](x)
	rowc2[uint64](x)
	rowc2[json.RawMessage](x)
	rowc2[interface{}](x)
}
func row3[A, B any](x *aenv) {
	mk3[A, B, int](x)
	mk3[A, B, string](x)
	mk3[A, B, bool](x)
	mk3[A, B, []int](x)
	mk3[A, B, map[string]int](x)
	mk3[A, B, *S](x)
	mk3[A, B, S](x)
	mk3[A, B, float64](x)
	mk3[A, B, uint64](x)
	mk3[A, B, json.RawMessage](x)
	mk3[A, B, interface{}](x)
}
func plane3[A any](x *aenv) {
	row3[A, int](x)
	row3[A, string](x)
	row3[A, bool](x)
	row3[A, []int](x)
	row3[A, map[string]int](x)
	row3[A, *S](x)
	row3[A, S](x)
	row3[A, float64](x)
	row3[A, uint64](x)
	row3[A, json.RawMessage](x)
	row3[A, interface{}](x)
}
func all3(x *aenv) {
	plane3[int](x)
	plane3[string](x)
	plane3[bool](x)
	plane3[[]int](x)
	plane3[map[string]int](x)
	plane3[*S](x)
	plane3[S](x)
	plane3[float64](x)
	plane3[uint64](x)
	plane3[json.RawMessage](x)
	plane3[interface{}](x)
}

// ---------------------------------------------------------------------------------------
// the check
// ---------------------------------------------------------------------------------------

type sampler struct {
	c *rep.Collector
	n map[string]int
	// violations are recorded at most perClass times per class (a class = scenario, model
	// verdict, configuration shape and kind of deviation), so that one defect hitting
	// thousands of inputs cannot crowd a different one out of the report; every violating
	// case is still counted, per class, in coverage.violation_classes.
	classes map[string]int
}

const perClass = 3

func (s *sampler) violate(class, scenario string, input interface{}, format string, args ...interface{}) {
	s.classes[class]++
	if s.classes[class] <= perClass {
		s.c.Violate(scenario, input, format, args...)
	}
}

func (s *sampler) total() int {
	n := 0
	for _, v := range s.classes {
		n += v
	}
	return n
}

func (s *sampler) maybe(scn string, mk func() interface{}) {
	s.n[scn]++
	if n := s.n[scn]; n <= 2 || n%1000 == 0 {
		s.c.Sample(mk())
	}
}

func TestC12(t *testing.T) {
	c := rep.New("C12")
	thorough := rep.Tier() == "thorough"
	maxRegs := 2
	if thorough {
		maxRegs = 3
	}
	sm := &sampler{c: c, n: map[string]int{}, classes: map[string]int{}}
	c.SetMaxViolations(3000)

	// the library's built-in formatters against the reference ones (precondition of the model)
	for _, f := range formatters {
		for _, ns := range namespaces {
			for _, m := range allMethods {
				got, want := f.lib(ns, m), f.ref(ns, m)
				c.Case(hkey("fmt/"+f.name+"/"+ns+"/"+m), true, "formatter")
				if got != want {
					c.Violate("dispatch", map[string]string{"formatter": f.name, "namespace": ns, "method": m},
						"formatter %s applied to (namespace=%q, method=%q) gives %q, reference gives %q", f.name, ns, m, got, want)
				}
			}
		}
	}

	univ := universeNames()
	base := baseCandidates()
	tagNames := append(append([]string{}, univ...), "al", "al0", "al1", "al2", "al3", "al4", "al5", "gone", "dec", "lp", "hop", "miss", missingName)
	p := &pipe{}
	clients := buildClients(t, p, tagNames)
	seqs := regSeqs(maxRegs)
	nServers, nClientCfg := 0, 0

	for _, regs := range seqs {
		for _, f := range formatters {
			md0 := newModel(regs, f)
			for _, at := range aliasTables(md0, f, univ) {
				md := &model{table: md0.table, names: md0.names, alias: map[string]string{}}
				for _, pr := range at.pairs {
					md.alias[pr[0]] = pr[1]
				}
				srv, rc := buildServer(regs, f, at)
				nServers++
				cfg := cfgString(regs, f, at)

				// ---- scenario "dispatch": raw method strings ----
				cands := append([]string{}, base...)
				seen := map[string]bool{}
				for _, s := range cands {
					seen[s] = true
				}
				for _, pr := range at.pairs {
					for _, s := range []string{pr[0], pr[1], strings.ToUpper(pr[0]), strings.ToLower(pr[0])} {
						if !seen[s] {
							seen[s] = true
							cands = append(cands, s)
						}
					}
				}
				for _, m := range cands {
					mj, _ := json.Marshal(m)
					body := `{"jsonrpc":"2.0","id":1,"method":` + string(mj) + `,"params":[]}`
					rc.log = rc.log[:0]
					reply := call(srv, body)
					pr := parseReply(reply)
					wantID, how, wantRun := md.lookup(m)
					c.Case(hkey("dispatch/"+cfg+"/"+m), true, "dispatch/"+how)
					sm.maybe("dispatch", func() interface{} {
						return map[string]interface{}{"scenario": "dispatch", "config": cfg, "request": body, "model": how, "expect_run": wantID}
					})
					if bad := judgeDispatch(wantRun, wantID, rc.log, pr); len(bad) > 0 {
						sm.violate(fmt.Sprintf("dispatch/%s/%s/%s/%s", f.name, at.name, how, devKind(rc.log, pr)), "dispatch",
							map[string]interface{}{"config": cfg, "request": body, "reply": reply, "model": how},
							"dispatch: %s method=%q (model: %s): %s; request=%q reply=%q", cfg, m, how, strings.Join(bad, "; "), body, reply)
					}
				}

				// ---- scenario "client-agreement": generated clients against this server ----
				if !at.clientCheck {
					continue
				}
				nClientCfg++
				p.cur = srv
				for _, cl := range clients {
					typ := cl.val.Type()
					for i := 0; i < typ.NumField(); i++ {
						fld := typ.Field(i)
						wire, tagged := fld.Tag.Lookup("rpc_method")
						if !tagged {
							wire = cl.f.ref(cl.ns, fld.Name)
						}
						wantID, how, wantRun := md.lookup(wire)
						rc.log = rc.log[:0]
						p.lastBody, p.lastReply = "", ""
						out := cl.val.Field(i).Call(nil)
						val := out[0].String()
						var cerr error
						if e := out[1].Interface(); e != nil {
							cerr = e.(error)
						}
						pr := parseReply(p.lastReply)
						desc := fmt.Sprintf("client(kind=%s namespace=%q formatter=%s field=%s tag=%q)", cl.kind, cl.ns, cl.f.name, fld.Name, fld.Tag)
						class := "client/plain/"
						if tagged {
							class = "client/tagged/"
						} else if cl.f.name == f.name {
							class = "client/plain-same-formatter/"
						}
						c.Case(hkey("client/"+cfg+"/"+desc), true, class+how)
						sm.maybe("client-agreement", func() interface{} {
							return map[string]interface{}{"scenario": "client-agreement", "config": cfg, "client": desc, "wire_name_expected": wire, "model": how, "expect_run": wantID}
						})
						bad := judgeDispatch(wantRun, wantID, rc.log, pr)
						if wantRun && cerr != nil {
							bad = append(bad, fmt.Sprintf("client call returned error %q although the method exists", cerr))
						}
						if wantRun && cerr == nil && val != wantID {
							bad = append(bad, fmt.Sprintf("client call returned %q, the handler the model selects returns %q", val, wantID))
						}
						if !wantRun && cerr == nil {
							bad = append(bad, fmt.Sprintf("client call returned no error (value %q) although the method does not exist", val))
						}
						if len(bad) > 0 {
							sm.violate(fmt.Sprintf("client/%s/%s/%s/%s/%s/%s", f.name, at.name, cl.kind, cl.f.name, how, devKind(rc.log, pr)), "client-agreement",
								map[string]interface{}{"config": cfg, "client": desc, "request": p.lastBody, "reply": p.lastReply, "model": how},
								"client-agreement: %s %s expected wire name %q (model: %s): %s; request=%q reply=%q", cfg, desc, wire, how, strings.Join(bad, "; "), p.lastBody, p.lastReply)
						}
					}
				}
			}
		}
	}
	c.Extra("dispatch_server_configurations", nServers)
	c.Extra("client_server_configurations", nClientCfg)
	c.Extra("registration_sequences", len(seqs))
	c.Extra("max_registrations", maxRegs)

	nMeth := arityTypes(c, sm, thorough)
	c.Extra("arity_methods", nMeth)

	c.Extra("client_side_dispatch_cases", clientSideDispatch(c, sm))

	c.Extra("violation_classes", sm.classes)
	if total := sm.total(); total > 0 {
		c.Extra("violating_cases", total) // the collector only saw the recorded ones
	}

	prod := "per position every JSON kind with the other positions valid"
	if thorough {
		prod += ", plus the full product of JSON kinds over all positions"
	}
	c.Write(t, true, fmt.Sprintf("complete product: every order of every set of <= %d distinct registrations out of {A,B,\"\"} x {T1{Foo,Bar},T2{Foo,Baz}} (%d sequences) "+
		"x 5 formatters (4 built-in, custom ns_method) x 14 alias tables (none, to existing, to each existing, to missing, to a name of another formatter, shadowing every direct name, "+
		"alias->alias, alias->direct that is itself aliased, alias->missing that is an alias, self loop, empty alias, upper-case alias, all together, all together registered before the handlers) "+
		"x %d+ candidate method strings (every formatted name under every formatter, lower/upper/first-char case variants, malformed spellings, the empty string, alias names and targets) raw through HandleRequest; "+
		"for alias tables none and all: 3 client namespaces x 5 client formatters x {plain struct, hand-written tagged struct, struct with one rpc_method-tagged field per universe name and alias name} through NewCustomClient; "+
		"arity/types: %d methods = all signatures of arity 0..3 over 11 types (arity 0..2 also with a leading context), param arrays of length 0..k+1, %s, params absent/null/non-array; "+
		"client-side handlers: every ordered pair of 5 client configurations (namespace x alias table) living in one process, 6 method strings sent to each by a bare WebSocket peer; "+
		"reference model: map[formatted name]handler with later registration winning, one alias hop, encoding/json for decodability",
		maxRegs, len(seqs), len(base), nMeth, prod))
}

func paramsBody(wire string, params string, present bool) string {
	mj, _ := json.Marshal(wire)
	if !present {
		return `{"jsonrpc":"2.0","id":1,"method":` + string(mj) + `}`
	}
	return `{"jsonrpc":"2.0","id":1,"method":` + string(mj) + `,"params":` + params + `}`
}

// arityTypes runs scenario "arity-types" and returns the number of handler methods covered.
func arityTypes(c *rep.Collector, sm *sampler, thorough bool) int {
	x := &aenv{srv: jsonrpc.NewServer()}
	h0 := &H0{}
	x.add(h0, &h0.hrec, false)
	hc0 := &HC0{}
	x.add(hc0, &hc0.hrec, true)
	all1(x)
	allc1(x)
	all2(x)
	allc2(x)
	all3(x)

	// expect: "run" | "reject:-32602" | "reject:any" | "norun".
	// culprit only groups violations into classes (see sampler.violate). Returns whether the
	// observation agreed with the model.
	eval := func(m *ameth, group, body, expect, why, culprit string) bool {
		x.log = x.log[:0]
		reply := call(x.srv, body)
		pr := parseReply(reply)
		c.Case(hkey("arity/"+m.wire+"/"+body), true, "arity-types/"+group+"/"+expect)
		sm.maybe("arity-types", func() interface{} {
			return map[string]interface{}{"scenario": "arity-types", "handler": m.decl, "request": body, "expect": expect}
		})
		var bad []string
		switch expect {
		case "run":
			if len(x.log) != 1 || x.log[0] != m.name {
				bad = append(bad, fmt.Sprintf("handler must run exactly once, executed=%q", x.log))
			}
			if !pr.ok || pr.hasError {
				bad = append(bad, "reply is not a success reply")
			}
		case "reject:-32602":
			if len(x.log) != 0 {
				bad = append(bad, fmt.Sprintf("handler ran despite wrong param count, executed=%q", x.log))
			}
			if !pr.ok || !pr.hasError || !pr.codeOK || pr.code != -32602 {
				bad = append(bad, "reply is not an error with code -32602")
			}
		case "reject:any":
			if len(x.log) != 0 {
				bad = append(bad, fmt.Sprintf("handler ran although the request must be rejected, executed=%q", x.log))
			}
			if !pr.ok || !pr.hasError {
				bad = append(bad, "reply is not an error reply")
			}
		case "norun":
			if len(x.log) != 0 {
				bad = append(bad, fmt.Sprintf("handler ran, executed=%q", x.log))
			}
		}
		if len(bad) == 0 {
			return true
		}
		sm.violate(fmt.Sprintf("arity-types/%s/%s/%s/%s", group, expect, culprit, devKind(x.log, pr)), "arity-types",
			map[string]interface{}{"handler": m.decl, "method": m.wire, "request": body, "reply": reply, "expect": expect, "why": why},
			"arity-types: registrations=[(%q, handler with method %s)] server-formatter=default aliases=none group=%s expect=%s (%s): %s; request=%q reply=%q",
			m.name, m.decl, group, expect, why, strings.Join(bad, "; "), body, reply)
		return false
	}

	// (JSON kind, declared type) pairs that already deviate with all other positions valid;
	// used to say, for a deviating combination, which single param explains it
	deviatesAlone := map[string]bool{}
	pairName := func(kind string, t reflect.Type) string { return fmt.Sprintf("json.Unmarshal(%s) into %s", kind, t) }

	for _, m := range x.methods {
		k := len(m.types)
		valid := make([]string, k)
		for i, t := range m.types {
			valid[i] = alphaOf(t).valid
		}
		// param count 0..k+1, every supplied value valid for its position
		for n := 0; n <= k+1; n++ {
			ps := make([]string, n)
			for i := range ps {
				if i < k {
					ps[i] = valid[i]
				} else {
					ps[i] = `1`
				}
			}
			body := paramsBody(m.wire, "["+strings.Join(ps, ",")+"]", true)
			if n == k {
				eval(m, "count", body, "run", fmt.Sprintf("%d params for arity %d, all decodable", n, k), fmt.Sprintf("n=%d,k=%d", n, k))
			} else {
				eval(m, "count", body, "reject:-32602", fmt.Sprintf("%d params for arity %d", n, k), fmt.Sprintf("n=%d,k=%d", n, k))
			}
		}
		// per position every JSON kind, other positions valid
		for i := 0; i < k; i++ {
			for _, kind := range jsonKinds {
				ps := append([]string{}, valid...)
				ps[i] = kind
				body := paramsBody(m.wire, "["+strings.Join(ps, ",")+"]", true)
				pn := pairName(kind, m.types[i])
				var ok bool
				if decodes(kind, m.types[i]) {
					ok = eval(m, "kind", body, "run", fmt.Sprintf("%s succeeds (position %d)", pn, i), pn)
				} else {
					ok = eval(m, "kind", body, "reject:any", fmt.Sprintf("%s fails (position %d)", pn, i), pn)
				}
				if !ok {
					deviatesAlone[pn] = true
				}
			}
		}
		// thorough: every combination of JSON kinds over all positions
		if thorough && k >= 2 {
			idx := make([]int, k)
			for {
				ps := make([]string, k)
				ok := true
				var fails, alone, aloneNames, pairs []string
				for i := range idx {
					ps[i] = jsonKinds[idx[i]]
					pn := pairName(ps[i], m.types[i])
					pairs = append(pairs, pn)
					if !decodes(ps[i], m.types[i]) {
						fails = append(fails, fmt.Sprintf("%s fails (position %d)", pn, i))
						ok = false
					}
					if deviatesAlone[pn] {
						alone = append(alone, fmt.Sprintf("%s (position %d)", pn, i))
						aloneNames = append(aloneNames, pn)
					}
				}
				body := paramsBody(m.wire, "["+strings.Join(ps, ",")+"]", true)
				culprit := "novel:" + strings.Join(pairs, "+")
				note := ""
				if len(alone) > 0 {
					culprit = "contains:" + strings.Join(aloneNames, "+")
					note = "; contains " + strings.Join(alone, ", ") + " which already deviates with the other positions valid"
				}
				if ok {
					eval(m, "kind-product", body, "run", "every param decodes with json.Unmarshal"+note, culprit)
				} else {
					eval(m, "kind-product", body, "reject:any", strings.Join(fails, ", ")+note, culprit)
				}
				j := k - 1
				for ; j >= 0; j-- {
					idx[j]++
					if idx[j] < len(jsonKinds) {
						break
					}
					idx[j] = 0
				}
				if j < 0 {
					break
				}
			}
		}
		// params absent / null
		for _, form := range []struct {
			params  string
			present bool
		}{{"", false}, {"null", true}} {
			body := paramsBody(m.wire, form.params, form.present)
			if k == 0 {
				eval(m, "no-params", body, "run", "no params for arity 0", fmt.Sprintf("k=%d", k))
			} else {
				eval(m, "no-params", body, "reject:any", fmt.Sprintf("no params for arity %d", k), fmt.Sprintf("k=%d", k))
			}
		}
		// params that are not an array: must never run a handler that needs params
		if k > 0 {
			for _, form := range []string{`{}`, `{"0":1}`, `1`, `"s"`, `true`} {
				eval(m, "non-array", paramsBody(m.wire, form, true), "norun", fmt.Sprintf("params is not an array, arity %d", k), form)
			}
		}
	}
	return len(x.methods)
}
