package scen

import (
	"fmt"
	"strings"
	"time"

	"verifharness/vnet"
	"verifharness/vsched"
)

// S-TERM (DESIGN §3 C08): subscriptions with 3-value producers; termination causes fired by
// low-priority actors, so that by default they strike at quiescence and with one deviation
// at any decision point of the stream's life.
func init() {
	Register(&Scenario{
		Name:     "term",
		LazyToo:  true,
		Property: "C08",
		Cfg:      vsched.Config{Horizon: 10 * time.Second},
		Params: func(tier string) []Param {
			var ps []Param
			causes := []string{"cancel", "fin", "rst", "close"}
			add := func(c1, c2 string, reconnect, k, bound int) {
				ps = append(ps, Param{Name: fmt.Sprintf("%s+%s-rc%d-k%d", c1, c2, reconnect, k), Bound: bound,
					V: map[string]int{"reconnect": reconnect, "k": k}, S: map[string]string{"c1": c1, "c2": c2}})
			}
			single, pair := 2, 1
			if tier == "thorough" {
				single, pair = 3, 2
			}
			add("none", "none", 0, 1, single)
			for _, c := range causes {
				// quick tier: bound 2 only where the cleanup order matters most (client close,
				// cut followed by reconnect); the other single causes at bound 1
				b0, b1 := single, single
				if tier != "thorough" {
					if c != "close" {
						b0 = 1
					}
					if c != "fin" {
						b1 = 1
					}
				}
				add(c, "none", 0, 1, b0)
				if c == "fin" || c == "rst" {
					add(c, "none", 1, 1, b1)
				}
			}
			for _, c1 := range causes {
				for _, c2 := range causes {
					if c1 == c2 {
						continue
					}
					add(c1, c2, 0, 1, pair)
				}
			}
			add("fin", "cancel", 1, 1, pair)
			add("rst", "close", 1, 1, pair)
			add("close", "none", 0, 2, pair)
			add("fin", "none", 1, 2, pair)
			// the link dies at the instant the subscription's response frame has been delivered
			// (placed by a frame-relative cut, so it costs no deviation)
			for _, c := range []string{"fin", "rst"} {
				for _, rc := range []int{0, 1} {
					ps = append(ps, Param{Name: fmt.Sprintf("respcut-%s-rc%d", c, rc), Bound: single,
						V: map[string]int{"reconnect": rc, "k": 1, "respcut": 1}, S: map[string]string{"c1": "none", "c2": "none", "cut": c}})
					ps = append(ps, Param{Name: fmt.Sprintf("respcut-%s-rc%d-desc", c, rc), Bound: single,
						V: map[string]int{"reconnect": rc, "k": 1, "respcut": 1, "desc": 1}, S: map[string]string{"c1": "none", "c2": "none", "cut": c}})
				}
			}
			// the link dies in the middle of a frame: the response that announces the channel, or the
			// first value (the reader has accepted the message and fails while reading its body)
			for _, c := range []string{"fin", "rst"} {
				for _, fr := range []int{0, 1} {
					for _, rc := range []int{0, 1} {
						ps = append(ps, Param{Name: fmt.Sprintf("midcut-%s-f%d-rc%d", c, fr, rc), Bound: pair,
							V: map[string]int{"reconnect": rc, "k": 1, "respcut": 1, "cutframe": fr, "cutmid": 1}, S: map[string]string{"c1": "none", "c2": "none", "cut": c}})
					}
				}
			}
			// three live subscriptions established together; the oldest ends first
			ps = append(ps, Param{Name: "none-k3-sync", Bound: pair, V: map[string]int{"k": 3, "sync": 1}, S: map[string]string{"c1": "none", "c2": "none"}})
			ps = append(ps, Param{Name: "close+none-rc0-k1-desc", Bound: single, V: map[string]int{"k": 1, "desc": 1}, S: map[string]string{"c1": "close", "c2": "none"}})
			// a second subscription made after the reconnect (the new connection numbers its channels
			// from 1 again), then the context of the first, long dead subscription is cancelled
			for _, c := range []string{"fin", "rst"} {
				ps = append(ps, Param{Name: c + "-resub-cancelold", Bound: pair, V: map[string]int{"k": 2, "reconnect": 1, "resub": 1}, S: map[string]string{"c1": c, "c2": "none"}})
			}
			ps = append(ps, Param{Name: "fin+none-rc1-k1-desc", Bound: single, V: map[string]int{"k": 1, "reconnect": 1, "desc": 1}, S: map[string]string{"c1": "fin", "c2": "none"}})
			return ps
		},
		Body: termBody,
	})
}

func termBody(s *vsched.Sched, p Param) {
	k := p.I("k")
	const n = 3
	sw, err := newStreamWorld(s, k, 0, p.I("reconnect") == 1, true)
	if err != nil {
		s.Violate("HARNESS: setup: %v", err)
		return
	}
	if p.I("respcut") == 1 {
		fc := vnet.FrameCut{Kind: faultKinds[p.Str("cut")], Dir: vnet.S2C, Frame: p.I("cutframe"), Where: vnet.After}
		if p.I("cutmid") == 1 {
			fc.Where, fc.DataOnly = vnet.MidPayload, true
		}
		sw.w.Net.ArmFrame(0, fc)
	}
	if p.I("sync") == 1 {
		sw.srv.syncK = k
		s.EnvEnabled = func(name string) bool {
			switch name {
			case "sub-go":
				return sw.srv.Entered() >= k
			case "prod-go":
				for _, st := range sw.subs {
					if _, _, ret, _, _ := st.snapshot(); !ret {
						return false
					}
				}
			}
			return true
		}
	}
	obs := NewObs()
	resub := p.I("resub") == 1
	if resub {
		sw.srv.prodGate = map[int]string{2: "prodb-go"}
		s.EnvEnabled = func(name string) bool {
			switch name {
			case "subb-go": // the link has been re-established
				n := 0
				for _, d := range sw.w.Net.Dials() {
					if d.OK {
						n++
					}
				}
				_, fired := obs.Get("fired-" + p.Str("c1"))
				return fired && n >= 2
			case "cancelold-go":
				_, _, ret, _, _ := sw.subs[1].snapshot()
				return ret
			case "prodb-go":
				_, ok := obs.Get("cancelled-old")
				return ok
			}
			return true
		}
	}
	s.Teardown = func() {
		for _, c := range sw.cancel {
			c()
		}
		sw.w.Teardown()
	}
	fire := func(cause string) {
		switch cause {
		case "cancel":
			for _, c := range sw.cancel {
				c()
			}
		case "fin":
			sw.w.Net.Link(0).Sever(vnet.FIN)
		case "rst":
			sw.w.Net.Link(0).Sever(vnet.RST)
		case "close":
			sw.closer()
		}
		obs.Set("fired-"+cause, "1")
	}
	s.Finish = func() {
		for i := 0; i < k; i++ {
			got, closed, returned, err, hasChan := sw.subs[i].snapshot()
			if !returned {
				s.Violate("C08: Sub %d never returned; alive: %s", i, strings.Join(s.Alive(), " "))
				continue
			}
			obs.Set(fmt.Sprintf("sub%d", i), "err=%v chan=%v got=%v closed=%v", err != nil, hasChan, got, closed)
			if !hasChan || err != nil {
				// A channel returned together with a non-nil error is not treated as "handed to
				// the caller": callers drop the value of a failed call (DESIGN §3 C08).
				continue
			}
			ni := n
			if p.I("sync") == 1 && i == 0 {
				ni = 1 // the oldest of the three streams is short
			}
			want := make([]int, ni)
			for j := range want {
				want[j] = (i+1)*1000 + j
			}
			if !isPrefix(got, want) {
				s.Violate("C08: subscription %d received %v, which is not a prefix of what the handler sent %v", i, got, want)
			}
			if !closed {
				s.Violate("C08: the channel handed to the caller of subscription %d was never closed (causes: %s, %s; reconnect=%d; received %v); alive: %s",
					i, p.Str("c1"), p.Str("c2"), p.I("reconnect"), got, strings.Join(s.Alive(), " "))
			}
			if resub && i == 1 && fmt.Sprint(got) != fmt.Sprint(want) {
				s.Violate("C08: the subscription made after the reconnect received %v, handler sent %v (only the context of the earlier, dead subscription was cancelled)", got, want)
			}
			if p.Str("c1") == "none" && p.I("respcut") == 0 && fmt.Sprint(got) != fmt.Sprint(want) {
				s.Violate("C07: undisturbed subscription %d received %v, want %v", i, got, want)
			}
		}
		for _, c := range []string{p.Str("c1"), p.Str("c2")} {
			if c == "close" {
				if _, ok := obs.Get("fired-close"); !ok {
					s.Violate("C18: the closer did not return; alive: %s", strings.Join(s.Alive(), " "))
				}
			}
		}
		checkStreamWire(s, sw.w, "C07")
		obs.Set("wire", "%s", wireOrder(sw.w))
		s.SetObs(obs.String())
	}
	s.Begin()
	for i := 0; i < k; i++ {
		i := i
		if resub && i == 1 {
			s.Go("zsub-b", func() {
				s.Env("subb-go")
				sw.subscribe(s, 1, n, func() bool { return true })
			})
			s.Go("zzcancel-old", func() {
				s.Env("cancelold-go")
				sw.cancel[0]()
				obs.Set("cancelled-old", "1")
			})
			continue
		}
		s.Go(fmt.Sprintf("sub-%d", i), func() {
			ni := n
			if p.I("sync") == 1 && i == 0 {
				ni = 1
			}
			sw.subscribe(s, i, ni, func() bool { return true })
		})
	}
	if c := p.Str("c1"); c != "none" {
		s.Go("zcause1", func() { fire(c) })
	}
	if c := p.Str("c2"); c != "none" {
		s.Go("zcause2", func() { fire(c) })
	}
}
