package scen

import (
	"bytes"
	"context"
	"crypto/sha256"
	"fmt"
	"io"
	"strings"
	"sync"
	"time"

	jsonrpc "github.com/filecoin-project/go-jsonrpc"
	"github.com/filecoin-project/go-jsonrpc/httpio"

	"verifharness/vnet"
	"verifharness/vsched"
)

// payload byte i of call c
func payloadByte(c, i int) byte { return byte((i*7 + c*131 + i/251) % 256) }

func makePayload(c, n int) []byte {
	b := make([]byte, n)
	for i := range b {
		b[i] = payloadByte(c, i)
	}
	return b
}

type ReaderSrv struct {
	s  *vsched.Sched
	mu sync.Mutex
}

// ReadPat consumes r according to pattern and reports what it saw.
func (h *ReaderSrv) ReadPat(ctx context.Context, r io.Reader, call int, pattern int) (string, error) {
	var buf bytes.Buffer
	extra := ""
	switch pattern {
	case 0, 3, 4: // ReadAll (+ two more reads / + close)
		b, err := io.ReadAll(r)
		if err != nil {
			return "", fmt.Errorf("ReadAll: %w", err)
		}
		buf.Write(b)
		if pattern == 3 {
			for k := 0; k < 2; k++ {
				// user code can be pre-empted between two reads: the upload request may
				// complete (and its body be closed) in between
				h.s.Yield("between-reads")
				n, err := r.Read(make([]byte, 16))
				extra += fmt.Sprintf(" again%d=%d,%v", k, n, err)
			}
		}
		if pattern == 4 {
			h.s.Yield("before-close")
			if c, ok := r.(io.Closer); ok {
				extra += fmt.Sprintf(" close=%v", c.Close())
			}
		}
	case 1: // one byte at a time
		one := make([]byte, 1)
		for {
			n, err := r.Read(one)
			buf.Write(one[:n])
			if err == io.EOF {
				break
			}
			if err != nil {
				return "", err
			}
		}
	case 2: // 4 KiB chunks
		chunk := make([]byte, 4096)
		for {
			n, err := r.Read(chunk)
			buf.Write(chunk[:n])
			if err == io.EOF {
				break
			}
			if err != nil {
				return "", err
			}
		}
	case 6: // read a head, close, then keep using the reader: further reads must fail with an error and a second close must not panic
		b := make([]byte, 100)
		n, _ := io.ReadFull(r, b)
		buf.Write(b[:n])
		if c, ok := r.(io.Closer); ok {
			extra += fmt.Sprintf(" close=%v", c.Close())
			for k := 0; k < 2; k++ {
				h.s.Yield("after-close")
				n, err := r.Read(make([]byte, 16))
				extra += fmt.Sprintf(" afterclose%d=%d,%v", k, n, err != nil)
			}
			c.Close()
			extra += " closed-twice"
		}
	case 5: // read half, then close
		b := make([]byte, 35000)
		n, _ := io.ReadFull(r, b)
		buf.Write(b[:n])
		if c, ok := r.(io.Closer); ok {
			extra += fmt.Sprintf(" close=%v", c.Close())
		}
	}
	return fmt.Sprintf("n=%d sum=%x%s", buf.Len(), sha256.Sum256(buf.Bytes()), extra), nil
}

type ReaderCli struct {
	ReadPat func(ctx context.Context, r io.Reader, call int, pattern int) (string, error)
	// the same method through a retry-tagged function
	ReadPatRetry func(ctx context.Context, r io.Reader, call int, pattern int) (string, error) `retry:"true" rpc_method:"T.ReadPat"`
}

// S-READER (DESIGN §3 C20).
func init() {
	Register(&Scenario{
		Name:     "reader",
		OptsToo:  true,
		LazyToo:  true,
		Property: "C20",
		Cfg:      vsched.Config{Horizon: 10 * time.Second},
		Params: func(tier string) []Param {
			var ps []Param
			lens := []int{0, 1, 4095, 4096, 4097, 70000}
			for _, pat := range []int{0, 1, 2, 3, 4, 5, 6} {
				for _, l := range lens {
					if pat == 1 && l > 5000 {
						continue
					}
					if pat == 5 && l != 70000 {
						continue
					}
					if pat == 6 && l != 4097 && l != 70000 {
						continue
					}
					b := 0
					if l == 4097 || l == 0 || (l == 70000 && pat != 0) {
						b = 1
					}
					if tier == "thorough" {
						b++
						if l == 70000 {
							b = 1
						} else if l <= 1 {
							b = 3
						}
					}
					ps = append(ps, Param{Name: fmt.Sprintf("n1-pat%d-len%d", pat, l), Bound: b, V: map[string]int{"n": 1, "pat": pat, "len": l}})
				}
			}
			// the rendezvous between upload and request (both arrive "at the same time") on the
			// smallest payload, one level deeper
			ps = append(ps, Param{Name: "n1-pat0-len1-deep", Bound: 3, V: map[string]int{"n": 1, "pat": 0, "len": 1}})
			b2 := 1
			if tier == "thorough" {
				b2 = 2
				ps = append(ps, Param{Name: "n1-pat0-len1-deeper", Bound: 4, V: map[string]int{"n": 1, "pat": 0, "len": 1}})
			}
			if tier == "thorough" {
				ps = append(ps, Param{Name: "n1-pat0-len1048577", Bound: 0, V: map[string]int{"n": 1, "pat": 0, "len": 1<<20 + 1}})
				ps = append(ps, Param{Name: "n1-pat2-len1048577", Bound: 0, V: map[string]int{"n": 1, "pat": 2, "len": 1<<20 + 1}})
			}
			// the push address is given with a trailing slash
			ps = append(ps, Param{Name: "n1-pat0-len4097-slash", Bound: 0, V: map[string]int{"n": 1, "pat": 0, "len": 4097, "slash": 1}})
			ps = append(ps, Param{Name: "n1-pat2-len1-slash", Bound: b2 - 1, V: map[string]int{"n": 1, "pat": 2, "len": 1, "slash": 1}})
			// a retry-tagged call whose first request frame is lost with the connection: the retry
			// after the reconnect must still be matched with the (one) upload of the caller's bytes
			for _, wh := range []vnet.Where{vnet.Before, vnet.MidPayload} {
				ps = append(ps, Param{Name: fmt.Sprintf("n1-pat0-len4097-retry-%s", wh), Bound: b2 - 1, V: map[string]int{"n": 1, "pat": 0, "len": 4097, "retry": 1, "where": int(wh)}})
			}
			ps = append(ps, Param{Name: "n2-pat0-len4097", Bound: b2, V: map[string]int{"n": 2, "pat": 0, "len": 4097}})
			ps = append(ps, Param{Name: "n2-pat2-len1", Bound: b2, V: map[string]int{"n": 2, "pat": 2, "len": 1}})
			return ps
		},
		Body: readerBody,
	})
}

func readerBody(s *vsched.Sched, p Param) {
	n, pat, ln := p.I("n"), p.I("pat"), p.I("len")
	pushHnd, decOpt := httpio.ReaderParamDecoder()
	w := NewWorld(s, jsonrpc.WithServerPingInterval(0), decOpt)
	w.YieldOnDial = true
	srv := &ReaderSrv{s: s}
	w.RPC.Register("T", srv)
	w.Mux.Handle("/push/", pushHnd)
	w.Serve()
	var cli ReaderCli
	push := "http://" + Addr + "/push"
	if p.I("slash") == 1 {
		push += "/"
	}
	rcOpt := jsonrpc.WithNoReconnect()
	if p.I("retry") == 1 {
		rcOpt = jsonrpc.WithReconnectBackoff(10*time.Millisecond, 40*time.Millisecond)
		w.Net.ArmFrame(0, vnet.FrameCut{Kind: vnet.FIN, Dir: vnet.C2S, Frame: 0, Where: vnet.Where(p.I("where"))})
	}
	_, err := w.WS("T", &cli, jsonrpc.WithPingInterval(0), jsonrpc.WithTimeout(0), rcOpt, httpio.ReaderParamEncoder(push))
	if err != nil {
		s.Violate("HARNESS: setup: %v", err)
		return
	}
	obs := NewObs()
	s.Teardown = w.Teardown
	s.Finish = func() {
		for c := 0; c < n; c++ {
			v, ok := obs.Get(fmt.Sprintf("ret-%d", c))
			if !ok {
				s.Violate("C20: reader-carrying call %d never returned; alive: %s", c, strings.Join(s.Alive(), " "))
				continue
			}
			if strings.Contains(v, "panic") {
				s.Violate("C20: the handler panicked while using the reader (pattern %d, %d bytes): %s", pat, ln, v)
				continue
			}
			if strings.HasPrefix(v, "ERR:") {
				s.Violate("C20: reader-carrying call %d failed on a healthy connection (pattern %d, %d bytes): %s", c, pat, ln, v)
				continue
			}
			want := makePayload(c, ln)
			if pat == 5 {
				want = want[:35000]
			}
			if pat == 6 {
				want = want[:100]
			}
			exp := fmt.Sprintf("n=%d sum=%x", len(want), sha256.Sum256(want))
			if !strings.HasPrefix(v, exp) {
				s.Violate("C20: call %d: the handler did not observe exactly the caller's %d bytes (pattern %d): got %.60s want %.60s", c, ln, pat, v, exp)
			}
			if pat == 3 && !strings.Contains(v, "again0=0,EOF again1=0,EOF") {
				s.Violate("C20: end-of-file is not reported consistently on further reads: %s", v[strings.Index(v, " again"):])
			}
		}
		for _, a := range s.Alive() {
			if strings.Contains(a, "reader.go") {
				s.Violate("C20: a goroutine is still parked in the reader rendezvous at the end: %s", a)
			}
		}
		// the uploading HTTP request completes (200) once the handler consumed the stream
		if pat != 5 && pat != 6 {
			ups := 0
			for li := 1; li < w.Net.LinkCount(); li++ {
				// uploads may share a keep-alive connection: count the responses on each link
				resp := string(w.Net.Link(li).Wire(vnet.S2C))
				if strings.HasPrefix(resp, "HTTP/1.1 101") {
					continue // the WebSocket connection made by the reconnect
				}
				ups += strings.Count(resp, "HTTP/1.1 200")
				if k := strings.Count(resp, "HTTP/1.1 "); k != strings.Count(resp, "HTTP/1.1 200") {
					s.Violate("C20: an upload request got a non-200 reply: %.60q", resp)
				}
			}
			if ups != n {
				s.Violate("C20: %d of %d upload requests completed with 200; alive: %s", ups, n, strings.Join(s.Alive(), " "))
			}
		}
		obs.Set("order", "%s", arrivalOrder(w))
		s.SetObs(obs.String())
	}
	s.Begin()
	for c := 0; c < n; c++ {
		c := c
		s.Go(fmt.Sprintf("caller-%d", c), func() {
			call := cli.ReadPat
			if p.I("retry") == 1 {
				call = cli.ReadPatRetry
			}
			v, err := call(context.Background(), bytes.NewReader(makePayload(c, ln)), c, pat)
			if err != nil {
				obs.Set(fmt.Sprintf("ret-%d", c), "ERR:%s", shortErr(err))
				if strings.Contains(err.Error(), "panic") {
					obs.Set(fmt.Sprintf("ret-%d", c), "panic:%s", err.Error())
				}
				return
			}
			obs.Set(fmt.Sprintf("ret-%d", c), "%s", v)
		})
	}
}

// arrivalOrder says, per upload link, whether its first byte was written before or after the
// first WebSocket request frame (both orders must occur over an exploration).
func arrivalOrder(w *World) string {
	ws := w.Net.Link(0).WriteLog(vnet.C2S)
	firstReq := -1
	st := vnet.ParseWS(w.Net.Link(0).Wire(vnet.C2S))
	for _, r := range ws {
		if r.Off >= st.HandshakeLen {
			firstReq = r.Seq
			break
		}
	}
	out := ""
	for li := 1; li < w.Net.LinkCount(); li++ {
		up := w.Net.Link(li).WriteLog(vnet.C2S)
		if len(up) == 0 {
			out += "none,"
		} else if firstReq < 0 || up[0].Seq < firstReq {
			out += "upload-first,"
		} else {
			out += "rpc-first,"
		}
	}
	return out
}
