package scen

import (
	"bytes"
	"context"
	"fmt"
	"io"
	"strings"
	"sync"
	"time"

	jsonrpc "github.com/filecoin-project/go-jsonrpc"

	"verifharness/vnet"
	"verifharness/vsched"
)

// CloseSrv serves the mixed workload of the close scenario.
type CloseSrv struct {
	s    *vsched.Sched
	mu   sync.Mutex
	runs map[int]int
}

func (h *CloseSrv) Echo(ctx context.Context, tok int) (int, error) {
	h.mu.Lock()
	h.runs[tok]++
	h.mu.Unlock()
	if tok < 50 {
		h.s.Env(fmt.Sprintf("complete-%d", tok))
	}
	return tok, nil
}

func (h *CloseSrv) Note(ctx context.Context, tok int) error {
	h.mu.Lock()
	h.runs[tok]++
	h.mu.Unlock()
	return nil
}

func (h *CloseSrv) Big(ctx context.Context, n int) (string, error) {
	return strings.Repeat("x", n), nil
}

func (h *CloseSrv) Sub(ctx context.Context, id int, n int) (<-chan int, error) {
	out := make(chan int)
	h.s.Go(fmt.Sprintf("prod-%d", id), func() {
		defer close(out)
		for j := 0; j < n; j++ {
			select {
			case out <- id*1000 + j:
			case <-ctx.Done():
				return
			}
		}
	})
	return out, nil
}

type CloseCli struct {
	Echo func(ctx context.Context, tok int) (int, error)
	Note func(ctx context.Context, tok int) error `notify:"true"`
	Big  func(ctx context.Context, n int) (string, error)
	Sub  func(ctx context.Context, id int, n int) (<-chan int, error)
	// BigAsSub declares a channel result for a server method that answers with a string:
	// the client cannot make sense of the response, so the call stays in flight until the
	// client is closed (or the connection is lost)
	BigAsSub func(ctx context.Context, n int) (<-chan int, error) `rpc_method:"T.Big"`
}

// S-CLOSE (DESIGN §3 C18): the closer is a low-priority actor; with bound b it is fired at
// every decision point of every execution with at most b-1 other deviations.
func init() {
	Register(&Scenario{
		Name:     "close",
		OptsToo:  true,
		LazyToo:  true,
		DescToo:  true,
		Property: "C18",
		Cfg:      vsched.Config{Horizon: 10 * time.Second},
		Params: func(tier string) []Param {
			var ps []Param
			add := func(name string, bound int, v map[string]int) { ps = append(ps, Param{Name: name, Bound: bound, V: v}) }
			b := 0
			if tier == "thorough" {
				b = 1
			}
			add("ws-calls", 2+b, map[string]int{"ws": 1, "calls": 1})
			add("ws-mixed", 1+b, map[string]int{"ws": 1, "calls": 1, "note": 1, "sub": 1})
			// only a subscription in flight: small enough for one more level (the closer racing the
			// execution of the channel-id response)
			add("ws-sub", 2+b, map[string]int{"ws": 1, "sub": 1})
			add("ws-big", 1+b, map[string]int{"ws": 1, "big": 1})
			// a call whose response the client cannot interpret is in flight when the closer runs
			add("ws-badsub", 1+b, map[string]int{"ws": 1, "badsub": 1, "calls": 1})
			add("ws-fin-window", 1+b, map[string]int{"ws": 1, "calls": 1, "sub": 1, "reconnect": 1, "fault": int(vnet.FIN)})
			add("ws-rst-window", 1+b, map[string]int{"ws": 1, "calls": 1, "reconnect": 1, "fault": int(vnet.RST)})
			add("ws-fin-dial", 1+b, map[string]int{"ws": 1, "calls": 1, "reconnect": 1, "fault": int(vnet.FIN), "ydial": 1})
			add("ws-fin-dialfail", 1+b, map[string]int{"ws": 1, "calls": 1, "reconnect": 1, "fault": int(vnet.FIN), "dialfail": 2})
			// keepalive on; the client's sending half breaks (writes fail, no read fails yet); the
			// closer runs after a ping has hit the broken half
			add("ws-pings-wbroken", 1+b, map[string]int{"ws": 1, "calls": 1, "reconnect": 1, "pings": 1, "wbreak": 1})
			add("ws-pings-wbroken-sub", 1+b, map[string]int{"ws": 1, "sub": 1, "reconnect": 1, "pings": 1, "wbreak": 1})
			// a peer that has gone silent without the connection ending (nothing is delivered in
			// either direction, nothing fails): Close may not wait for anything from it
			add("ws-silent", 1+b, map[string]int{"ws": 1, "calls": 1, "fault": int(vnet.Blackhole)})
			add("ws-silent-sub", 1+b, map[string]int{"ws": 1, "sub": 1, "fault": int(vnet.Blackhole)})
			add("ws-silent-rc", 1+b, map[string]int{"ws": 1, "calls": 1, "reconnect": 1, "fault": int(vnet.Blackhole)})
			add("http", 1+b, map[string]int{"ws": 0, "calls": 1})
			add("custom", 1+b, map[string]int{"ws": 0, "custom": 1, "calls": 1})
			return ps
		},
		Body: closeBody,
	})
}

func closeBody(s *vsched.Sched, p Param) {
	w := NewWorld(s, jsonrpc.WithServerPingInterval(0))
	w.YieldOnWrite = p.I("big") == 1
	w.YieldOnDial = p.I("ydial") == 1
	srv := &CloseSrv{s: s, runs: map[int]int{}}
	w.RPC.Register("T", srv)
	w.Serve()
	var cli CloseCli
	var closer jsonrpc.ClientCloser
	var err error
	if p.I("ws") == 1 {
		opts := []jsonrpc.Option{jsonrpc.WithPingInterval(0), jsonrpc.WithTimeout(0)}
		if p.I("pings") == 1 {
			opts = []jsonrpc.Option{jsonrpc.WithPingInterval(time.Second), jsonrpc.WithTimeout(3 * time.Second)}
		}
		if p.I("reconnect") == 1 {
			opts = append(opts, jsonrpc.WithReconnectBackoff(10*time.Millisecond, 40*time.Millisecond))
		} else {
			opts = append(opts, jsonrpc.WithNoReconnect())
		}
		closer, err = w.WS("T", &cli, opts...)
	} else if p.I("custom") == 1 {
		// custom transport: the request body is handed straight to the server's HandleRequest
		closer, err = jsonrpc.NewCustomClient("T", []interface{}{&cli}, func(ctx context.Context, body []byte) (io.ReadCloser, error) {
			var buf bytes.Buffer
			w.RPC.HandleRequest(ctx, bytes.NewReader(body), &buf)
			return io.NopCloser(&buf), nil
		})
	} else {
		closer, err = w.HTTPClient("T", &cli)
	}
	if err != nil {
		s.Violate("HARNESS: setup: %v", err)
		return
	}
	obs := NewObs()
	has := func(k string) bool { _, ok := obs.Get(k); return ok }
	var mu sync.Mutex
	dialsAtClose := -1
	var brokenAt time.Duration
	var chans []*subState
	subCtx, subCancel := context.WithCancel(context.Background())
	s.Teardown = func() { subCancel(); w.Teardown() }
	s.EnvEnabled = func(name string) bool {
		switch name {
		case "complete-1":
			// the parked handler is released once the closer has returned (WS: the call must
			// have been failed by then; HTTP: the call must still complete with its token)
			return has("closed")
		case "after-go":
			return has("closed")
		case "close-go": // a ping tick after the sending half broke
			mu.Lock()
			at := brokenAt
			mu.Unlock()
			return at > 0 && s.Now() >= at+1500*time.Millisecond
		}
		return true
	}
	issue := func(name string, f func() string) {
		obs.Set("iss-"+name, "1")
		obs.Set("ret-"+name, "%s", f())
	}
	s.Finish = func() {
		if !has("iss-close") {
			s.Violate("HARNESS: closer never fired")
		} else if !has("closed") {
			s.Violate("C18: the closer did not return; alive: %s", strings.Join(s.Alive(), " "))
		}
		for _, k := range []string{"A", "B", "N", "L", "S", "M", "X1", "X2", "XS"} {
			if has("iss-"+k) && !has("ret-"+k) {
				s.Violate("C18: call %s never returned after the client was closed; alive: %s", k, strings.Join(s.Alive(), " "))
			}
		}
		if p.I("ws") == 1 {
			for _, k := range []string{"X1", "X2", "XS"} {
				if v, ok := obs.Get("ret-" + k); ok && !strings.Contains(v, "err") {
					s.Violate("C18: call %s issued after the closer returned did not fail: %s", k, v)
				}
			}
			mu.Lock()
			d := dialsAtClose
			mu.Unlock()
			if d >= 0 && len(w.Net.Dials()) > d {
				s.Violate("C18: a dial was started after the closer returned (dial log %v, %d dials at close)", w.Net.Dials(), d)
			}
		} else {
			// HTTP: the closer must not disturb calls in progress
			if v, ok := obs.Get("ret-A"); ok && v != "1" {
				s.Violate("C18: HTTP call in progress was disturbed by the closer: %s", v)
			}
		}
		for i, st := range chans {
			got, closed, _, err, hasChan := st.snapshot()
			if hasChan && err == nil && !closed {
				s.Violate("C18: channel %d obtained from the client is not closed after the client was closed (received %v); alive: %s", i, got, strings.Join(s.Alive(), " "))
			}
		}
		for _, k := range []string{"A", "B", "L"} {
			if v, ok := obs.Get("ret-" + k); ok && !strings.Contains(v, "err") {
				want := map[string]string{"A": "1", "B": "60", "L": "len70000"}[k]
				if v != want {
					s.Violate("C18: call %s returned %s, neither its genuine result nor an error", k, v)
				}
			}
		}
		s.SetObs(obs.String())
	}
	echo := func(tok int) func() string {
		return func() string {
			v, err := cli.Echo(context.Background(), tok)
			if err != nil {
				return "err:" + errClass(err)
			}
			return fmt.Sprint(v)
		}
	}
	sub := func(st *subState, id int) func() string {
		return func() string {
			ch, err := cli.Sub(subCtx, id, 3)
			st.mu.Lock()
			st.returned, st.err, st.hasChan = true, err, ch != nil
			st.mu.Unlock()
			if err != nil {
				return "err:" + errClass(err)
			}
			s.Go(fmt.Sprintf("cons-%d", id), func() {
				for v := range ch {
					st.mu.Lock()
					st.got = append(st.got, v)
					st.mu.Unlock()
				}
				st.mu.Lock()
				st.closed = true
				st.mu.Unlock()
			})
			return "chan"
		}
	}
	s.Begin()
	if p.I("calls") == 1 {
		s.Go("caller-a", func() { issue("A", echo(1)) })
		s.Go("caller-b", func() { issue("B", echo(60)) })
	}
	if p.I("note") == 1 {
		s.Go("caller-n", func() {
			issue("N", func() string { return fmt.Sprint(cli.Note(context.Background(), 61) == nil) })
		})
	}
	if p.I("big") == 1 {
		s.Go("caller-l", func() {
			issue("L", func() string {
				v, err := cli.Big(context.Background(), 70000)
				if err != nil {
					return "err:" + errClass(err)
				}
				return fmt.Sprintf("len%d", len(v))
			})
		})
	}
	if p.I("sub") == 1 {
		st := &subState{}
		chans = append(chans, st)
		s.Go("caller-s", func() { issue("S", sub(st, 1)) })
	}
	if p.I("badsub") == 1 {
		s.Go("caller-m", func() {
			issue("M", func() string {
				ch, err := cli.BigAsSub(context.Background(), 3)
				if err != nil {
					return "err:" + errClass(err)
				}
				return fmt.Sprintf("chan=%v", ch != nil)
			})
		})
	}
	if f := vnet.FaultKind(p.I("fault")); f != vnet.None {
		s.Go("zcut", func() {
			if n := p.I("dialfail"); n > 0 {
				w.Net.FailDials(n)
			}
			w.Net.Link(0).Sever(f)
		})
	}
	if p.I("wbreak") == 1 {
		s.Go("zbreak", func() {
			w.Net.Link(0).BreakWrites(vnet.C2S)
			mu.Lock()
			brokenAt = s.Now() + 1
			mu.Unlock()
		})
	}
	s.Go("zzcloser", func() {
		if p.I("wbreak") == 1 {
			s.Env("close-go")
		}
		obs.Set("iss-close", "1")
		closer()
		mu.Lock()
		dialsAtClose = len(w.Net.Dials())
		mu.Unlock()
		obs.Set("closed", "1")
	})
	if p.I("ws") == 1 {
		s.Go("zzzafter", func() {
			s.Env("after-go")
			issue("X1", echo(71))
			issue("X2", echo(72))
			st := &subState{}
			chans = append(chans, st)
			issue("XS", sub(st, 2))
		})
	}
}
