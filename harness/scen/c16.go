package scen

import (
	"context"
	"fmt"
	"strings"
	"sync"
	"time"

	jsonrpc "github.com/filecoin-project/go-jsonrpc"

	"verifharness/vnet"
	"verifharness/vsched"
)

// RevCli is the reverse proxy the server builds per connection.
type RevCli struct {
	Count  func(ctx context.Context, n int) (<-chan int, error)
	WhoAmI func(ctx context.Context) (int, error)
	Twice  func(ctx context.Context, x int) (int, error)
}

// RevCliTagged reaches the same client-side method through an alias registered on the client.
type RevCliTagged struct {
	WhoAmI func(ctx context.Context) (int, error) `rpc_method:"custom.who"`
}

// RevHnd is the client-side reverse handler: it reports the identity of its client.
type RevHnd struct {
	s     *vsched.Sched
	id    int
	hold  bool
	mu    sync.Mutex
	twice int // number of Twice calls served
}

func (r *RevHnd) Twice(ctx context.Context, x int) (int, error) {
	r.mu.Lock()
	r.twice++
	r.mu.Unlock()
	return 2 * x, nil
}

// Count streams id*100+0 .. id*100+n-1 back to the server: a reverse subscription.
func (r *RevHnd) Count(ctx context.Context, n int) (<-chan int, error) {
	out := make(chan int)
	r.s.Go(fmt.Sprintf("revprod-%d", r.id), func() {
		defer close(out)
		for j := 0; j < n; j++ {
			select {
			case out <- r.id*100 + j:
			case <-ctx.Done():
				return
			}
		}
	})
	return out, nil
}

func (r *RevHnd) TwiceRan() bool {
	r.mu.Lock()
	defer r.mu.Unlock()
	return r.twice > 0
}

func (r *RevHnd) WhoAmI(ctx context.Context) (int, error) {
	if r.hold {
		r.s.Env(fmt.Sprintf("whoami-%d", r.id))
	}
	return r.id, nil
}

type RevSrv struct {
	s      *vsched.Sched
	tagged bool
	mu     sync.Mutex
	inRev  map[int]bool // handlers currently inside a reverse call, by token
	notes  map[int]string
}

// Call makes a reverse call while the forward call is pending and returns token*100+identity.
func (h *RevSrv) Call(ctx context.Context, tok int) (string, error) {
	var who func(context.Context) (int, error)
	if h.tagged {
		rc, ok := jsonrpc.ExtractReverseClient[RevCliTagged](ctx)
		if !ok {
			return "no-reverse-client", nil
		}
		who = rc.WhoAmI
	} else {
		rc, ok := jsonrpc.ExtractReverseClient[RevCli](ctx)
		if !ok {
			return "no-reverse-client", nil
		}
		who = rc.WhoAmI
	}
	h.mu.Lock()
	h.inRev[tok] = true
	h.mu.Unlock()
	id, err := who(ctx)
	h.mu.Lock()
	delete(h.inRev, tok)
	h.mu.Unlock()
	if err != nil {
		return fmt.Sprintf("tok%d-reverr", tok), nil
	}
	return fmt.Sprintf("tok%d-id%d", tok, id), nil
}

// Call2 has two different reverse methods in flight at the same time on its connection.
func (h *RevSrv) Call2(ctx context.Context, tok int) (string, error) {
	rc, ok := jsonrpc.ExtractReverseClient[RevCli](ctx)
	if !ok {
		return "no-reverse-client", nil
	}
	h.mu.Lock()
	h.inRev[tok] = true
	h.mu.Unlock()
	type res struct {
		v   int
		err error
	}
	done := make(chan res, 1)
	h.s.Go(fmt.Sprintf("rev2-%d", tok), func() {
		v, err := rc.Twice(ctx, tok)
		done <- res{v, err}
	})
	id, err := rc.WhoAmI(ctx) // parked on the client until Twice has been served
	tw := <-done
	h.mu.Lock()
	delete(h.inRev, tok)
	h.mu.Unlock()
	if err != nil || tw.err != nil {
		return fmt.Sprintf("tok%d-reverr(%v,%v)", tok, err, tw.err), nil
	}
	return fmt.Sprintf("tok%d-id%d-tw%d", tok, id, tw.v), nil
}

// CallSub subscribes to a stream served by the calling client and returns what it received.
func (h *RevSrv) CallSub(ctx context.Context, tok int) (string, error) {
	rc, ok := jsonrpc.ExtractReverseClient[RevCli](ctx)
	if !ok {
		return "no-reverse-client", nil
	}
	h.mu.Lock()
	h.inRev[tok] = true
	h.mu.Unlock()
	defer func() {
		h.mu.Lock()
		delete(h.inRev, tok)
		h.mu.Unlock()
	}()
	ch, err := rc.Count(ctx, 3)
	if err != nil || ch == nil {
		return fmt.Sprintf("tok%d-reverr(%v)", tok, err), nil
	}
	var got []int
	for v := range ch {
		got = append(got, v)
	}
	return fmt.Sprintf("tok%d-got%v", tok, got), nil
}

// CallN is Call as a notification: its outcome is recorded on the server.
func (h *RevSrv) CallN(ctx context.Context, tok int) error {
	v, _ := h.Call(ctx, tok)
	h.mu.Lock()
	h.notes[tok] = v
	h.mu.Unlock()
	return nil
}

type FwdCli struct {
	CallSub func(ctx context.Context, tok int) (string, error)
	Call2   func(ctx context.Context, tok int) (string, error)
	Call    func(ctx context.Context, tok int) (string, error)
	CallN   func(ctx context.Context, tok int) error `notify:"true"`
}

// S-REV (DESIGN §3 C16).
func init() {
	Register(&Scenario{
		Name:     "rev",
		OptsToo:  true,
		LazyToo:  true,
		DescToo:  true,
		Property: "C16",
		Cfg:      vsched.Config{Horizon: 10 * time.Second},
		Params: func(tier string) []Param {
			var ps []Param
			add := func(name string, bound int, v map[string]int) { ps = append(ps, Param{Name: name, Bound: bound, V: v}) }
			b := 0
			if tier == "thorough" {
				b = 1
			}
			add("m2-plain", 2+b, map[string]int{"m": 2})
			// the forward call is a notification whose handler calls back
			add("m2-notify", 1+b, map[string]int{"m": 2, "notify": 1})
			add("m2-tagged", 1+b, map[string]int{"m": 2, "tagged": 1})
			add("m3-plain", 1+b, map[string]int{"m": 3})
			for _, loss := range []int{1, 2, 3} { // closer, FIN, RST
				add(fmt.Sprintf("m2-loss%d", loss), 1+b, map[string]int{"m": 2, "loss": loss})
				add(fmt.Sprintf("m2-loss%d-hold", loss), 1+b, map[string]int{"m": 2, "loss": loss, "hold": 1})
			}
			// the first client's connection is lost in the middle of the frame that carries its
			// answer to the reverse call (the server has received half a message)
			add("m2-lossmid-fin", 1+b, map[string]int{"m": 2, "loss": 4})
			add("m2-lossmid-rst", 1+b, map[string]int{"m": 2, "loss": 5})
			// a reverse *subscription*: the server's handler receives a stream served by the client
			add("m2-revsub", 1+b, map[string]int{"m": 2, "revsub": 1})
			// two different reverse methods in flight together on each connection
			add("m2-twometh", 1+b, map[string]int{"m": 2, "twometh": 1})
			// only the first client registers the alias: the second one must reject the name
			add("m2-tagged-aliasonly0", 1+b, map[string]int{"m": 2, "tagged": 1, "aliasonly0": 1})
			// the first client loses its connection and reconnects; a reverse call on the new connection
			add("m2-reconnect", 1+b, map[string]int{"m": 2, "reconnect": 1})
			add("m2-reconnect-tagged", 1+b, map[string]int{"m": 2, "reconnect": 1, "tagged": 1})
			add("ctl-http", 0, map[string]int{"m": 1, "http": 1})
			add("ctl-noopt", 0, map[string]int{"m": 1, "noopt": 1})
			return ps
		},
		Body: revBody,
	})
}

func revBody(s *vsched.Sched, p Param) {
	m := p.I("m")
	tagged := p.I("tagged") == 1
	var sopts []jsonrpc.ServerOption
	sopts = append(sopts, jsonrpc.WithServerPingInterval(0))
	if p.I("noopt") == 0 {
		if tagged {
			sopts = append(sopts, jsonrpc.WithReverseClient[RevCliTagged]("R"))
		} else {
			sopts = append(sopts, jsonrpc.WithReverseClient[RevCli]("R"))
		}
	}
	w := NewWorld(s, sopts...)
	srv := &RevSrv{s: s, tagged: tagged, inRev: map[int]bool{}, notes: map[int]string{}}
	w.RPC.Register("T", srv)
	w.Serve()
	clis := make([]FwdCli, m)
	closers := make([]jsonrpc.ClientCloser, m)
	hnds := make([]*RevHnd, m)
	twometh, reconnect := p.I("twometh") == 1, p.I("reconnect") == 1
	for j := 0; j < m; j++ {
		var err error
		if p.I("http") == 1 {
			closers[j], err = w.HTTPClient("T", &clis[j])
		} else {
			hnds[j] = &RevHnd{s: s, id: j + 1, hold: p.I("hold") == 1 && j == 0 || twometh}
			opts := []jsonrpc.Option{jsonrpc.WithPingInterval(0), jsonrpc.WithTimeout(0), jsonrpc.WithClientHandler("R", hnds[j])}
			if reconnect && j == 0 {
				opts = append(opts, jsonrpc.WithReconnectBackoff(10*time.Millisecond, 40*time.Millisecond))
			} else {
				opts = append(opts, jsonrpc.WithNoReconnect())
			}
			if tagged && (p.I("aliasonly0") == 0 || j == 0) {
				opts = append(opts, jsonrpc.WithClientHandlerAlias("custom.who", "R.WhoAmI"))
			}
			closers[j], err = w.WS("T", &clis[j], opts...)
		}
		if err != nil {
			s.Violate("HARNESS: setup: %v", err)
			return
		}
	}
	obs := NewObs()
	has := func(k string) bool { _, ok := obs.Get(k); return ok }
	loss := p.I("loss")
	if loss == 4 || loss == 5 {
		// client-to-server frame 0 is the forward request, frame 1 the answer to the reverse call
		w.Net.ArmFrame(0, vnet.FrameCut{Kind: map[int]vnet.FaultKind{4: vnet.FIN, 5: vnet.RST}[loss], Dir: vnet.C2S, Frame: 1, Where: vnet.MidPayload})
	}
	s.Teardown = w.Teardown
	// The second forward call is released only when the redial has succeeded AND the system has
	// gone quiescent, i.e. the client has finished swapping the new connection in: a call issued
	// inside the hand-over may legitimately fail fast (that window is C03's and C05's subject).
	fwd2Allowed := false
	s.OnQuiesce = func() bool {
		if reconnect && !fwd2Allowed && has("cut") {
			n := 0
			for _, d := range w.Net.Dials() {
				if d.OK {
					n++
				}
			}
			if n >= m+1 {
				fwd2Allowed = true
				return true
			}
		}
		return false
	}
	s.EnvEnabled = func(name string) bool {
		if strings.HasPrefix(name, "whoami-") {
			if twometh {
				var id int
				fmt.Sscanf(name, "whoami-%d", &id)
				return hnds[id-1].TwiceRan() // both reverse calls of the connection are in flight
			}
			return has("lost") // the reverse handler of the lost client answers only after the loss
		}
		if name == "fwd2-go" {
			return fwd2Allowed
		}
		return true
	}
	s.Finish = func() {
		if p.I("notify") == 1 {
			srv.mu.Lock()
			for j := 0; j < m; j++ {
				if got, want := srv.notes[j+1], fmt.Sprintf("tok%d-id%d", j+1, j+1); got != want {
					s.Violate("C16: the reverse call made by the handler of client %d's notification yielded %q, want %q; alive: %s", j+1, got, want, strings.Join(s.Alive(), " "))
				}
			}
			srv.mu.Unlock()
		}
		for j := 0; j < m; j++ {
			v, ok := obs.Get(fmt.Sprintf("ret-%d", j))
			if !ok {
				s.Violate("C16: forward call of client %d never returned; alive: %s", j+1, strings.Join(s.Alive(), " "))
				continue
			}
			switch {
			case p.I("http") == 1 || p.I("noopt") == 1:
				if v != "no-reverse-client/<nil>" {
					s.Violate("C16: a reverse client was present without the server option / over HTTP: %s", v)
				}
			case p.I("revsub") == 1:
				if v != fmt.Sprintf("tok%d-got[%d %d %d]/<nil>", j+1, (j+1)*100, (j+1)*100+1, (j+1)*100+2) {
					s.Violate("C16: forward call of client %d, whose handler subscribed to a stream served by that client, returned %s", j+1, v)
				}
			case twometh:
				if v != fmt.Sprintf("tok%d-id%d-tw%d/<nil>", j+1, j+1, 2*(j+1)) {
					s.Violate("C16: forward call of client %d, whose handler had two different reverse methods in flight, returned %s", j+1, v)
				}
			case p.I("aliasonly0") == 1 && j == 1:
				if v != "tok2-reverr/<nil>" {
					s.Violate("C16: a reverse call by an alias that only ANOTHER client registered was not rejected by client %d: %s", j+1, v)
				}
			case (loss != 0 || reconnect) && j == 0:
				// the lost client: any error or result, but never another client's identity
				if strings.Contains(v, "-id") && !strings.Contains(v, fmt.Sprintf("tok%d-id%d/", j+1, j+1)) {
					s.Violate("C16: forward call of client %d got a foreign identity: %s", j+1, v)
				}
			default:
				if v != fmt.Sprintf("tok%d-id%d/<nil>", j+1, j+1) {
					s.Violate("C16: forward call of client %d returned %s, want its own token and its own identity", j+1, v)
				}
			}
		}
		if reconnect {
			if v, ok := obs.Get("ret-fwd2"); !ok {
				s.Violate("C16: the forward call made after the client reconnected never returned; alive: %s", strings.Join(s.Alive(), " "))
			} else if v != "tok7-id1/<nil>" {
				s.Violate("C16: after the client reconnected, a reverse call on the new connection did not reach it: %s", v)
			}
		}
		srv.mu.Lock()
		for tok := range srv.inRev {
			s.Violate("C16: the server handler of call %d is still blocked inside its reverse call although that client's connection is gone; alive: %s", tok, strings.Join(s.Alive(), " "))
		}
		srv.mu.Unlock()
		s.SetObs(obs.String())
	}
	s.Begin()
	for j := 0; j < m; j++ {
		j := j
		s.Go(fmt.Sprintf("fwd-%d", j), func() {
			if p.I("notify") == 1 {
				err := clis[j].CallN(context.Background(), j+1)
				obs.Set(fmt.Sprintf("ret-%d", j), "tok%d-id%d/%s", j+1, j+1, errClass(err))
				return
			}
			if p.I("revsub") == 1 {
				v, err := clis[j].CallSub(context.Background(), j+1)
				obs.Set(fmt.Sprintf("ret-%d", j), "%s/%s", v, errClass(err))
				return
			}
			if twometh {
				v, err := clis[j].Call2(context.Background(), j+1)
				obs.Set(fmt.Sprintf("ret-%d", j), "%s/%s", v, errClass(err))
				return
			}
			v, err := clis[j].Call(context.Background(), j+1)
			obs.Set(fmt.Sprintf("ret-%d", j), "%s/%s", v, errClass(err))
		})
	}
	if reconnect {
		s.Go("zcut", func() {
			w.Net.Link(0).Sever(vnet.FIN)
			obs.Set("cut", "1")
		})
		s.Go("zzfwd2", func() {
			s.Env("fwd2-go")
			v, err := clis[0].Call(context.Background(), 7)
			obs.Set("ret-fwd2", "%s/%s", v, errClass(err))
		})
	}
	if loss >= 1 && loss <= 3 {
		s.Go("zloss", func() {
			switch loss {
			case 1:
				closers[0]()
			case 2:
				w.Net.Link(0).Sever(vnet.FIN)
			case 3:
				w.Net.Link(0).Sever(vnet.RST)
			}
			obs.Set("lost", "1")
		})
	}
}
