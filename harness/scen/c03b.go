package scen

import (
	"context"
	"fmt"
	"strings"
	"time"

	jsonrpc "github.com/filecoin-project/go-jsonrpc"

	"verifharness/vnet"
	"verifharness/vsched"
)

// S-FAULTNR (C03): a WebSocket client created with the no-reconnect option (or whose parent
// context has been cancelled) has lost its only connection. Its connection goroutine is gone for
// good, so every later call must fail fast: a call that is still blocked when the system is
// quiescent would stay blocked for ever (no timer, no peer and no redial can release it).
func init() {
	Register(&Scenario{
		Name:     "faultnr",
		Property: "C03",
		DescToo:  true,
		Cfg:      vsched.Config{Horizon: 10 * time.Second},
		Params: func(tier string) []Param {
			var ps []Param
			wheres := []vnet.Where{vnet.Before, vnet.MidPayload, vnet.After}
			kinds := []string{"fin", "rst"}
			if tier == "thorough" {
				wheres = []vnet.Where{vnet.Before, vnet.InHeader, vnet.MidPayload, vnet.LastByte, vnet.After}
			}
			for _, kind := range kinds {
				for _, dir := range []vnet.Dir{vnet.C2S, vnet.S2C} {
					for _, wh := range wheres {
						b := 1
						if tier == "thorough" && wh == vnet.MidPayload {
							b = 2
						}
						ps = append(ps, Param{Name: fmt.Sprintf("norc-%s-%s-f0-%s", kind, dir, wh), Bound: b,
							V: map[string]int{"dir": int(dir), "where": int(wh)}, S: map[string]string{"kind": kind, "end": "fault"}})
					}
				}
			}
			// the connection goroutine ends because the client's parent context is cancelled
			ps = append(ps, Param{Name: "ctxcancel", Bound: 1, S: map[string]string{"kind": "fin", "end": "ctx"}})
			ps = append(ps, Param{Name: "ctxcancel-rc", Bound: 1, V: map[string]int{"rc": 1}, S: map[string]string{"kind": "fin", "end": "ctx"}})
			return ps
		},
		Body: faultNRBody,
	})
}

func faultNRBody(s *vsched.Sched, p Param) {
	w := NewWorld(s, jsonrpc.WithServerPingInterval(0))
	srv := &FaultSrv{s: s, Calls: map[int]int{}}
	w.RPC.Register("T", srv)
	w.Serve()
	opts := []jsonrpc.Option{jsonrpc.WithPingInterval(0), jsonrpc.WithTimeout(0)}
	if p.I("rc") == 0 {
		opts = append(opts, jsonrpc.WithNoReconnect())
	}
	byFault := p.Str("end") == "fault"
	if byFault {
		w.Net.ArmFrame(0, vnet.FrameCut{Kind: faultKinds[p.Str("kind")], Dir: vnet.Dir(p.I("dir")), Frame: 0, Where: vnet.Where(p.I("where"))})
	}
	var cli FaultCli
	closer, err := w.WS("T", &cli, opts...)
	if err != nil {
		s.Violate("HARNESS: setup: %v", err)
		return
	}
	obs := NewObs()
	returned := func(k string) bool { _, ok := obs.Get(k); return ok }
	ended := func() bool {
		if byFault {
			k, _ := w.Net.Link(0).Fault()
			return k != vnet.None
		}
		return returned("ctx-cancelled")
	}
	phase := 0 // 1: B may go, 2: C may go, 3: close may go
	s.OnQuiesce = func() bool {
		if !ended() || phase >= 3 {
			return false
		}
		// nothing can make progress any more and no reconnection will ever happen
		for _, k := range []string{"A", "B", "C"} {
			if returned("iss-"+k) && !returned("ret-"+k) {
				s.Violate("C03: call %s on a client that has lost its connection for good is still blocked (system quiescent, client not closed); alive: %s",
					k, strings.Join(s.Alive(), " "))
				phase = 3
				return true
			}
		}
		phase++
		return true
	}
	s.EnvEnabled = func(name string) bool {
		switch name {
		case "complete-1":
			return vnet.Dir(p.I("dir")) == vnet.S2C && byFault || ended()
		case "b-go": // from the moment the connection ends: one deviation places B inside the client's teardown
			return ended()
		case "c-go":
			return phase >= 2 && returned("ret-B")
		case "cancel-go":
			return returned("iss-A")
		case "close-go":
			return phase >= 3
		}
		return true
	}
	s.Teardown = w.Teardown
	s.Finish = func() {
		for _, k := range []string{"A", "B", "C"} {
			if returned("iss-"+k) && !returned("ret-"+k) {
				s.Violate("C03: call %s never returned although the client was closed; alive: %s", k, strings.Join(s.Alive(), " "))
			}
		}
		for _, k := range []string{"B", "C"} {
			if v, ok := obs.Get("ret-" + k); ok && strings.HasSuffix(v, "/<nil>") && byFault {
				s.Violate("C05: call %s succeeded on a no-reconnect client after its connection was lost (%s): did it redial? dials: %v", k, v, w.Net.Dials())
			}
		}
		if n := len(w.Net.Dials()); n != 1 && p.I("rc") == 0 {
			s.Violate("C05: a no-reconnect client dialled %d times", n)
		}
		if returned("iss-close") && !returned("closed") {
			s.Violate("C18: closer did not return; alive: %s", strings.Join(s.Alive(), " "))
		}
		if !ended() {
			obs.Set("end", "never-struck")
		}
		s.SetObs(obs.String())
	}
	call := func(name string, tok int) {
		obs.Set("iss-"+name, "1")
		v, err := cli.Echo(context.Background(), tok)
		if err == nil && v != tok {
			s.Violate("C03: call %s (token %d) returned a foreign result %d", name, tok, v)
		}
		obs.Set("ret-"+name, "%d/%s", v, errClass(err))
	}
	s.Begin()
	s.Go("caller-a", func() { call("A", 1) })
	if !byFault {
		s.Go("zcancel", func() {
			s.Env("cancel-go")
			w.Cancel()
			obs.Set("ctx-cancelled", "1")
		})
	}
	s.Go("zcaller-b", func() {
		s.Env("b-go")
		call("B", 2)
	})
	s.Go("zcaller-c", func() {
		s.Env("c-go")
		call("C", 60)
	})
	s.Go("zzcloser", func() {
		s.Env("close-go")
		obs.Set("iss-close", "1")
		closer()
		obs.Set("closed", "1")
	})
}
