package scen

import (
	"context"
	"errors"
	"fmt"
	"strings"
	"sync"
	"time"

	jsonrpc "github.com/filecoin-project/go-jsonrpc"

	"verifharness/vnet"
	"verifharness/vsched"
)

// FaultSrv is the handler of the fault scenarios. Echo parks (tokens < 50) until released.
type FaultSrv struct {
	s     *vsched.Sched
	mu    sync.Mutex
	Calls map[int]int
}

func (e *FaultSrv) hit(tok int) {
	e.mu.Lock()
	e.Calls[tok]++
	e.mu.Unlock()
}

func (e *FaultSrv) Count(tok int) int {
	e.mu.Lock()
	defer e.mu.Unlock()
	return e.Calls[tok]
}

func (e *FaultSrv) Echo(ctx context.Context, tok int) (int, error) {
	e.hit(tok)
	if tok < 50 {
		e.s.Env(fmt.Sprintf("complete-%d", tok))
	}
	return tok, nil
}

func (e *FaultSrv) EchoRetry(ctx context.Context, tok int) (int, error) {
	e.hit(tok)
	if tok < 50 {
		e.s.Env(fmt.Sprintf("complete-%d", tok))
	}
	return tok, nil
}

func (e *FaultSrv) Note(ctx context.Context, tok int) error {
	e.hit(tok)
	return nil
}

func (e *FaultSrv) Blob(ctx context.Context, b string) error { return nil }

// NoteFail is a notification handler that reports an error (to nobody).
func (e *FaultSrv) NoteFail(ctx context.Context, tok int) error {
	e.hit(tok)
	return fmt.Errorf("note-fail-%d", tok)
}

func (e *FaultSrv) NoteBoom(ctx context.Context, tok int) error {
	e.hit(tok)
	panic("note-boom")
}

// BadNoteCli: notification-tagged functions that run into the server's error paths (unknown
// method, wrong number of params, a param that does not decode, a panicking method). A
// notification never yields a response, whatever becomes of it.
type BadNoteCli struct {
	Missing  func(ctx context.Context, tok int) error  `notify:"true"`
	Note     func(ctx context.Context, a, b int) error `notify:"true"`
	Blob     func(ctx context.Context, n int) error    `notify:"true"`
	NoteBoom func(ctx context.Context, tok int) error  `notify:"true"`
	NoteFail func(ctx context.Context, tok int) error  `notify:"true"`
}

type FaultCli struct {
	// the retry-tagged field comes first on purpose: tags must not leak to fields declared after it
	EchoRetry func(ctx context.Context, tok int) (int, error) `retry:"true"`
	Echo      func(ctx context.Context, tok int) (int, error)
	Note      func(ctx context.Context, tok int) error  `notify:"true"`
	Blob      func(ctx context.Context, b string) error `notify:"true"`
}

var faultKinds = map[string]vnet.FaultKind{"fin": vnet.FIN, "rst": vnet.RST, "bh": vnet.Blackhole}

// S-FAULT (DESIGN §3 C03/C04): one reconnecting WS client; call A in flight when link 0 dies
// at a frame-relative position; call B issued in a chosen phase; probe P after recovery; then
// the client is closed. Serves C03 (no hang / no foreign result), C04 (execution counts, wire).
func init() {
	Register(&Scenario{
		Name:     "fault",
		LazyToo:  true,
		DescToo:  true,
		Property: "C03,C04",
		Cfg:      vsched.Config{Horizon: 20 * time.Second},
		Params:   faultParams,
		Body:     faultBody,
	})
}

func faultParams(tier string) []Param {
	var ps []Param
	add := func(kind string, dir vnet.Dir, frame int, where vnet.Where, bphase, akind, second string, bound int) {
		ps = append(ps, Param{
			Name:  fmt.Sprintf("%s-%s-f%d-%s-b@%s-a=%s-2nd=%s", kind, dir, frame, where, bphase, akind, second),
			Bound: bound,
			V:     map[string]int{"dir": int(dir), "frame": frame, "where": int(where)},
			S:     map[string]string{"kind": kind, "bphase": bphase, "akind": akind, "second": second},
		})
	}
	wheres := []vnet.Where{vnet.Before, vnet.InHeader, vnet.MidPayload, vnet.LastByte, vnet.After}
	if tier == "quick" {
		// the frames that carry A's request (c2s frame 0) and A's response (s2c frame 0)
		for _, kind := range []string{"fin", "rst"} {
			for _, dir := range []vnet.Dir{vnet.C2S, vnet.S2C} {
				for _, w := range wheres {
					for _, bp := range []string{"early", "window"} {
						add(kind, dir, 0, w, bp, "plain", "none", 1)
					}
				}
			}
		}
		add("bh", vnet.C2S, 0, vnet.After, "window", "plain", "none", 0)
		add("bh", vnet.S2C, 0, vnet.MidPayload, "early", "plain", "none", 0)
		add("bh", vnet.C2S, 0, vnet.After, "window", "plain", "poll", 0)
		add("bh", vnet.S2C, 0, vnet.Before, "window", "plain", "poll", 0)
		// a client with pings switched off but a timeout: only the read deadline can notice silence
		add("bh", vnet.C2S, 0, vnet.After, "window", "plain", "noping", 0)
		add("bh", vnet.S2C, 0, vnet.MidPayload, "early", "plain", "noping", 0)
		add("fin", vnet.S2C, 0, vnet.MidPayload, "window", "retry", "none", 1)
		add("rst", vnet.C2S, 0, vnet.After, "window", "notify", "none", 1)
		add("fin", vnet.S2C, 0, vnet.Before, "late", "plain", "dialfail", 1)
		add("rst", vnet.S2C, 0, vnet.After, "window", "plain", "again", 1)
		return ps
	}
	for _, kind := range []string{"fin", "rst", "bh"} {
		for _, dir := range []vnet.Dir{vnet.C2S, vnet.S2C} {
			for frame := 0; frame < 2; frame++ {
				for _, w := range wheres {
					for _, bp := range []string{"early", "window", "late"} {
						if frame == 1 && bp != "early" {
							continue // the second frame only exists if B is issued before the fault
						}
						for _, second := range []string{"none", "dialfail", "again"} {
							b := 1
							if kind == "bh" {
								b = 0
								if bp == "late" || second != "none" {
									continue
								}
							}
							if bp == "window" && second == "none" && kind != "bh" {
								b = 2
							}
							add(kind, dir, frame, w, bp, "plain", second, b)
						}
					}
				}
			}
		}
	}
	for _, dir := range []vnet.Dir{vnet.C2S, vnet.S2C} {
		for _, w := range wheres {
			add("bh", dir, 0, w, "window", "plain", "noping", 0)
			add("bh", dir, 0, w, "window", "plain", "poll", 0)
		}
	}
	for _, ak := range []string{"retry", "notify"} {
		for _, kind := range []string{"fin", "rst"} {
			for _, dir := range []vnet.Dir{vnet.C2S, vnet.S2C} {
				for _, w := range wheres {
					add(kind, dir, 0, w, "window", ak, "none", 1)
				}
			}
		}
	}
	return ps
}

func errClass(err error) string {
	if err == nil {
		return "<nil>"
	}
	var ce *jsonrpc.RPCConnectionError
	if errors.As(err, &ce) {
		return "RPCConnectionError"
	}
	var je *jsonrpc.JSONRPCError
	if errors.As(err, &je) {
		return fmt.Sprintf("JSONRPCError(%d)", je.Code)
	}
	var ec *jsonrpc.ErrClient
	if errors.As(err, &ec) {
		return "ErrClient:" + shortErr(err)
	}
	return "error:" + shortErr(err)
}

func shortErr(err error) string {
	s := err.Error()
	if len(s) > 60 {
		s = s[:60]
	}
	return s
}

func faultBody(s *vsched.Sched, p Param) {
	kind := faultKinds[p.Str("kind")]
	w := NewWorld(s, jsonrpc.WithServerPingInterval(0))
	srv := &FaultSrv{s: s, Calls: map[int]int{}}
	w.RPC.Register("T", srv)
	w.Serve()
	opts := []jsonrpc.Option{jsonrpc.WithReconnectBackoff(10*time.Millisecond, 40*time.Millisecond)}
	if kind == vnet.Blackhole && p.Str("second") == "noping" {
		opts = append(opts, jsonrpc.WithPingInterval(0), jsonrpc.WithTimeout(3*time.Second))
	} else if kind == vnet.Blackhole {
		// only the read deadline can notice silence
		opts = append(opts, jsonrpc.WithPingInterval(time.Second), jsonrpc.WithTimeout(3*time.Second))
	} else {
		opts = append(opts, jsonrpc.WithPingInterval(0), jsonrpc.WithTimeout(0))
	}
	w.Net.ArmFrame(0, vnet.FrameCut{Kind: kind, Dir: vnet.Dir(p.I("dir")), Frame: p.I("frame"), Where: vnet.Where(p.I("where"))})
	var cli FaultCli
	closer, err := w.WS("T", &cli, opts...)
	if err != nil {
		s.Violate("HARNESS: setup: %v", err)
		return
	}
	obs := NewObs()
	const tokA, tokB, tokP, tokP2 = 1, 2, 77, 78
	link0 := func() *vnet.Link { return w.Net.Link(0) }
	faulted := func() bool { k, _ := link0().Fault(); return k != vnet.None }
	okDials := func() int {
		n := 0
		for _, d := range w.Net.Dials() {
			if d.OK {
				n++
			}
		}
		return n
	}
	returned := func(k string) bool { _, ok := obs.Get(k); return ok }
	secondArmed := false
	closeAllowed := false
	pAllowed := 0
	s.OnQuiesce = func() bool {
		// Probes are issued only when the redial has succeeded AND the system has gone quiescent,
		// i.e. the client has finished swapping in the new connection: from then on the link is
		// "healthy again" and a probe must succeed. (Calls racing the redial itself are B's job.)
		if pAllowed == 0 && okDials() >= 2 {
			pAllowed = 1
			return true
		}
		if pAllowed == 1 && okDials() >= 3 && returned("ret-P") {
			pAllowed = 2
			return true
		}
		// Lost-call rule (clock-free): the last probe has round-tripped on the re-established
		// link and the system is quiescent, so nothing can make progress without the clock. A
		// plain call that is still outstanding now has no handler parked for it (B's and the
		// probes' handlers never park; A's is released once the link died) and no timer will
		// ever answer it: it is lost, and only closing the client would release it.
		last := "ret-P"
		if p.Str("second") == "again" {
			last = "ret-P2"
		}
		if closeAllowed || !returned(last) {
			return false
		}
		for _, k := range []string{"A", "B", "P"} {
			if k == "A" && p.Str("akind") == "retry" {
				continue // sleeps on its retry timer
			}
			if returned("iss-"+k) && !returned("ret-"+k) {
				s.Violate("C03: call %s is still blocked although the link is healthy again (probe %s round-tripped, system quiescent); alive: %s",
					k, last, strings.Join(s.Alive(), " "))
			}
		}
		closeAllowed = true
		return true
	}
	s.OnStep = func() {
		// arm the second fault as soon as the first one has struck
		if !secondArmed && faulted() {
			secondArmed = true
			switch p.Str("second") {
			case "dialfail":
				w.Net.FailDials(2)
			case "again":
				// the first request written on the new link kills it again
				w.Net.ArmFrame(1, vnet.FrameCut{Kind: kind, Dir: vnet.C2S, Frame: 0, Where: vnet.Where(p.I("where"))})
			}
		}
	}
	recovered := func() bool {
		want := 2
		if p.Str("second") == "again" {
			want = 3
		}
		return okDials() >= want
	}
	s.EnvEnabled = func(name string) bool {
		switch name {
		case "complete-1":
			// a cut in the client-to-server direction strikes while requests are written: A's
			// handler (if it runs at all) stays parked until the link has died, so that A is in
			// flight at the fault. A cut in the other direction strikes when a response is
			// written, so the handler must be free to finish.
			return vnet.Dir(p.I("dir")) == vnet.S2C || faulted()
		case "complete-2":
			return true
		case "b-go":
			switch p.Str("bphase") {
			case "early":
				return true
			case "window":
				return faulted() && okDials() == 1
			default:
				return recovered()
			}
		case "p-go":
			return pAllowed >= 1
		case "p2-go":
			return pAllowed >= 2
		case "close-go":
			return closeAllowed
		}
		return true
	}
	s.Teardown = w.Teardown
	s.Finish = func() {
		for _, k := range []string{"A", "B", "P", "P2"} {
			if returned("iss-"+k) && !returned("ret-"+k) {
				s.Violate("C03: call %s never returned although the client %s; alive: %s", k,
					map[bool]string{true: "was closed", false: "is healthy again"}[returned("closed")], strings.Join(s.Alive(), " "))
			}
		}
		last := "P"
		if p.Str("second") == "again" {
			last = "P2"
		}
		if v, ok := obs.Get("ret-" + last); ok && !strings.HasSuffix(v, "/<nil>") {
			s.Violate("C05: probe %s after reconnection failed: %s", last, v)
		}
		if !returned("iss-" + last) {
			s.Violate("C05: the client never re-established the link (dials: %v)", w.Net.Dials())
		}
		for _, tok := range []int{tokA, tokB, tokP, tokP2} {
			n := srv.Count(tok)
			tagged := tok == tokA && p.Str("akind") == "retry"
			if n > 1 && !tagged {
				s.Violate("C04: handler executed %d times for token %d (a call not tagged for retry)", n, tok)
			}
		}
		checkFaultWire(s, w, p)
		if returned("iss-close") && !returned("closed") {
			s.Violate("C18: closer did not return; alive: %s", strings.Join(s.Alive(), " "))
		}
		if !faulted() {
			obs.Set("fault", "never-struck")
		}
		s.SetObs(obs.String())
	}
	call := func(name string, tok int, kindOf string) {
		var v int
		var err error
		obs.Set("iss-"+name, "1")
		switch kindOf {
		case "retry":
			v, err = cli.EchoRetry(context.Background(), tok)
		case "notify":
			err = cli.Note(context.Background(), tok)
			v = tok
		default:
			v, err = cli.Echo(context.Background(), tok)
		}
		if err == nil && v != tok {
			s.Violate("C03: call %s (token %d) returned a foreign result %d", name, tok, v)
		}
		if err == nil && kindOf == "plain" && srv.Count(tok) != 1 {
			s.Violate("C04: call %s got a result but its handler ran %d times", name, srv.Count(tok))
		}
		obs.Set("ret-"+name, "%d/%s", v, errClass(err))
	}
	s.Begin()
	s.Go("caller-a", func() { call("A", tokA, p.Str("akind")) })
	s.Go("zcaller-b", func() {
		s.Env("b-go")
		call("B", tokB, "plain")
	})
	s.Go("zprobe", func() {
		s.Env("p-go")
		call("P", tokP, "plain")
	})
	if p.Str("second") == "poll" {
		// an application that keeps issuing calls more often than the timeout while the peer is
		// silent: the client must still notice the dead link (the read deadline must be armed)
		s.Go("poller", func() {
			for i := 0; i < 25 && !returned("ret-P"); i++ { // keeps polling up to the horizon
				time.Sleep(time.Second)
				i := i
				s.Go(fmt.Sprintf("poll-%d", i), func() { cli.Echo(context.Background(), 80+i) })
			}
		})
	}
	if p.Str("second") == "again" {
		s.Go("zprobe2", func() {
			s.Env("p2-go")
			call("P2", tokP2, "plain")
		})
	}
	s.Go("zzcloser", func() {
		s.Env("close-go")
		obs.Set("iss-close", "1")
		closer()
		obs.Set("closed", "1")
	})
}

// checkFaultWire: C04's wire clauses over every link of the execution.
func checkFaultWire(s *vsched.Sched, w *World, p Param) {
	idWrites := map[string]int{}
	for _, lk := range w.Net.Links {
		reqs, _ := WireFrames(lk, vnet.C2S)
		for _, f := range reqs {
			if f.Bad {
				continue // truncated by the fault
			}
			if (f.Method == "T.Note" || f.Method == "T.Blob" || f.Method == "T.Missing" || f.Method == "T.NoteBoom") && len(f.ID) > 0 && string(f.ID) != "null" {
				s.Violate("C04: notification frame carries an id: %s", f.Raw)
			}
			if f.Method == "T.Echo" && len(f.ID) > 0 {
				idWrites[string(f.ID)+"/"+string(f.Params)]++
			}
		}
		resps, _ := WireFrames(lk, vnet.S2C)
		for _, f := range resps {
			if !f.Bad && f.Method == "" && (len(f.ID) == 0 || string(f.ID) == "null") {
				s.Violate("C04: response frame without an id on the wire (reply to a notification?): %s", f.Raw)
			}
		}
	}
	for k, n := range idWrites {
		if n > 1 {
			s.Violate("C04: plain request %s was written %d times (the library re-sent it)", k, n)
		}
	}
}

// S-KINDS: plain, notification and retry-tagged calls on a healthy connection (C04's
// healthy clauses: exactly one execution each, notification without id and without response).
func init() {
	Register(&Scenario{
		Name:        "kinds",
		OptsToo:     true,
		LazyDescToo: true,
		Property:    "C04",
		Cfg:         vsched.Config{Horizon: 5 * time.Second},
		Params: func(tier string) []Param {
			b := 1
			if tier == "thorough" {
				b = 2
			}
			return []Param{
				{Name: "ws", Bound: b + 1, V: map[string]int{"ws": 1}},
				{Name: "http", Bound: b, V: map[string]int{"ws": 0}},
				// a frame larger than every internal buffer first, then concurrent calls, under
				// both base schedules (frame buffers must not be shared between queued frames)
				{Name: "ws-bigfirst", Bound: b, V: map[string]int{"ws": 1, "big": 70000}},
				{Name: "ws-bigfirst-desc", Bound: b, V: map[string]int{"ws": 1, "big": 70000, "desc": 1}},
				{Name: "ws-desc", Bound: b, V: map[string]int{"ws": 1, "desc": 1}},
				// notifications that hit the server's error paths, next to the healthy calls
				{Name: "ws-badnotes", Bound: b, V: map[string]int{"ws": 1, "badnotes": 1}},
				// the same over HTTP: the reply to each of those requests has an empty body
				{Name: "http-badnotes", Bound: 0, V: map[string]int{"ws": 0, "badnotes": 1}},
			}
		},
		Body: func(s *vsched.Sched, p Param) {
			w := NewWorld(s, jsonrpc.WithServerPingInterval(0))
			srv := &FaultSrv{s: s, Calls: map[int]int{}}
			w.RPC.Register("T", srv)
			w.Serve()
			var cli FaultCli
			var err error
			if p.I("ws") == 1 {
				_, err = w.WS("T", &cli, jsonrpc.WithPingInterval(0), jsonrpc.WithTimeout(0), jsonrpc.WithNoReconnect())
			} else {
				_, err = w.HTTPClient("T", &cli)
			}
			if err != nil {
				s.Violate("HARNESS: setup: %v", err)
				return
			}
			var bad BadNoteCli
			if p.I("badnotes") == 1 {
				// same connection kind, own connection: the wire check below covers every link
				if p.I("ws") == 0 {
					_, err = w.HTTPClient("T", &bad)
				} else {
					_, err = w.WS("T", &bad, jsonrpc.WithPingInterval(0), jsonrpc.WithTimeout(0), jsonrpc.WithNoReconnect())
				}
				if err != nil {
					s.Violate("HARNESS: setup: %v", err)
					return
				}
			}
			obs := NewObs()
			s.Teardown = w.Teardown
			s.Finish = func() {
				if p.I("badnotes") == 1 {
					if v, ok := obs.Get("ret-badnotes"); !ok {
						s.Violate("C04: notification-tagged calls that hit a server error path never returned; alive: %s", strings.Join(s.Alive(), " "))
					} else if v != "<nil>/<nil>/<nil>/<nil>/<nil>" {
						s.Violate("C04: a notification-tagged call yielded something to its caller: %s", v)
					}
					for _, tok := range []int{74, 75} {
						if n := srv.Count(tok); n != 1 {
							s.Violate("C04: the (panicking / failing) handler of notification %d executed %d times (want exactly 1)", tok, n)
						}
					}
					if p.I("ws") == 0 {
						// HTTP replies on every link: a notification whose handler ran to completion
						// (normally or returning an error) gets an empty body. Notifications that the
						// server rejects before running a handler (unknown method, arity, undecodable
						// param) or whose handler panics are answered with an error object over HTTP;
						// C09's statement allows a non-empty reply to a notification-only body, so no
						// demand is made on those here (DESIGN 5.2).
						for _, lk := range w.Net.Links {
							reqs := splitHTTP(string(lk.Wire(vnet.C2S)))
							resps := splitHTTP(string(lk.Wire(vnet.S2C)))
							for i, rq := range reqs {
								if !strings.Contains(rq, `"method"`) || strings.Contains(rq, `"id"`) || i >= len(resps) {
									continue
								}
								if !strings.Contains(rq, `"T.NoteFail"`) && !(strings.Contains(rq, `"T.Note"`) && strings.Contains(rq, `[61]`)) {
									continue
								}
								if body := httpBody(resps[i]); strings.TrimSpace(body) != "" {
									s.Violate("C04: the HTTP reply to a notification has a body: request %.120q reply body %.200q", httpBody(rq), body)
								}
							}
						}
					}
				}
				for name, tok := range map[string]int{"plain": 60, "notify": 61, "retry": 62} {
					v, ok := obs.Get("ret-" + name)
					if !ok {
						s.Violate("C04: %s call never returned on a healthy connection; alive: %s", name, strings.Join(s.Alive(), " "))
						continue
					}
					if !strings.HasSuffix(v, "/<nil>") {
						s.Violate("C04: %s call failed on a healthy connection: %s", name, v)
					}
					if n := srv.Count(tok); n != 1 {
						s.Violate("C04: the handler of the %s call executed %d times on a healthy connection (want exactly 1)", name, n)
					}
				}
				if p.I("ws") == 1 {
					checkFaultWire(s, w, p)
					obs.Set("wire", "%s", wireOrder(w))
				}
				s.SetObs(obs.String())
			}
			s.Begin()
			if n := p.I("big"); n > 0 {
				// sent first (highest priority actor name), returns once the frame is written
				s.Go("a-big", func() { cli.Blob(context.Background(), strings.Repeat("b", n)) })
			}
			s.Go("c-plain", func() { v, err := cli.Echo(context.Background(), 60); obs.Set("ret-plain", "%d/%s", v, errClass(err)) })
			s.Go("c-notify", func() { err := cli.Note(context.Background(), 61); obs.Set("ret-notify", "0/%s", errClass(err)) })
			s.Go("c-retry", func() {
				v, err := cli.EchoRetry(context.Background(), 62)
				obs.Set("ret-retry", "%d/%s", v, errClass(err))
			})
			if p.I("badnotes") == 1 {
				s.Go("c-badnotes", func() {
					e1 := bad.Missing(context.Background(), 70)
					e2 := bad.Note(context.Background(), 71, 72)
					e3 := bad.Blob(context.Background(), 73)
					e4 := bad.NoteBoom(context.Background(), 74)
					e5 := bad.NoteFail(context.Background(), 75)
					obs.Set("ret-badnotes", "%s/%s/%s/%s/%s", errClass(e1), errClass(e2), errClass(e3), errClass(e4), errClass(e5))
				})
			}
		},
	})
}

// S-HTTPFAULT: an HTTP client whose (reused, keep-alive) connection dies around the second
// call. C04: a plain call is executed at most once whatever the HTTP stack does underneath,
// and exactly once when the caller gets an answer.
func init() {
	Register(&Scenario{
		Name:     "httpfault",
		Property: "C04",
		Cfg:      vsched.Config{Horizon: 5 * time.Second},
		Params: func(tier string) []Param {
			var ps []Param
			b := 1
			if tier == "thorough" {
				b = 2
			}
			for _, kind := range []string{"fin", "rst"} {
				for _, where := range []string{"resp-before", "resp-mid", "resp-headend", "resp-body", "req-mid", "req-after"} {
					ps = append(ps, Param{Name: kind + "-" + where, Bound: b, S: map[string]string{"kind": kind, "where": where}})
				}
			}
			return ps
		},
		Body: func(s *vsched.Sched, p Param) {
			w := NewWorld(s)
			srv := &FaultSrv{s: s, Calls: map[int]int{}}
			w.RPC.Register("T", srv)
			w.Serve()
			var cli FaultCli
			if _, err := w.HTTPClient("T", &cli); err != nil {
				s.Violate("HARNESS: setup: %v", err)
				return
			}
			obs := NewObs()
			s.Teardown = w.Teardown
			s.Finish = func() {
				for _, tok := range []int{60, 61, 62} {
					if n := srv.Count(tok); n > 1 {
						s.Violate("C04: handler executed %d times for token %d (a plain HTTP call; the connection was cut at %s)", n, tok, p.Str("where"))
					}
				}
				for _, k := range []string{"warm", "cut", "after"} {
					if _, ok := obs.Get("ret-" + k); !ok {
						s.Violate("C04: HTTP call %s never returned; alive: %s", k, strings.Join(s.Alive(), " "))
					}
				}
				if v, _ := obs.Get("ret-after"); v != "62/<nil>" {
					s.Violate("C04: a call after the cut connection failed: %s", v)
				}
				if f, _ := w.Net.Link(0).Fault(); f == vnet.None {
					obs.Set("fault", "never-struck")
				}
				obs.Set("links", "%d", w.Net.LinkCount())
				s.SetObs(obs.String())
			}
			s.Begin()
			s.Go("caller", func() {
				v, err := cli.Echo(context.Background(), 60) // warm-up: establishes the keep-alive connection
				obs.Set("ret-warm", "%d/%s", v, errClass(err))
				lk := w.Net.Link(0)
				kind := faultKinds[p.Str("kind")]
				c2s, s2c := len(lk.Wire(vnet.C2S)), len(lk.Wire(vnet.S2C))
				switch p.Str("where") {
				case "resp-before":
					w.Net.Arm(0, vnet.Cut{Kind: kind, Dir: vnet.S2C, After: s2c})
				case "resp-mid":
					w.Net.Arm(0, vnet.Cut{Kind: kind, Dir: vnet.S2C, After: s2c + 40})
				case "resp-headend": // the status line and headers arrive complete, not one byte of the body
					he := strings.Index(string(lk.Wire(vnet.S2C)), "\r\n\r\n") + 4
					w.Net.Arm(0, vnet.Cut{Kind: kind, Dir: vnet.S2C, After: s2c + he})
				case "resp-body": // inside the body (the two responses have the same length)
					w.Net.Arm(0, vnet.Cut{Kind: kind, Dir: vnet.S2C, After: s2c + s2c - 10})
				case "req-mid":
					w.Net.Arm(0, vnet.Cut{Kind: kind, Dir: vnet.C2S, After: c2s + 60})
				case "req-after":
					w.Net.Arm(0, vnet.Cut{Kind: kind, Dir: vnet.C2S, After: c2s + c2s, Inclusive: true})
				}
				v, err = cli.Echo(context.Background(), 61)
				if err == nil && v != 61 {
					s.Violate("C03: HTTP call returned a foreign result %d", v)
				}
				if err == nil && srv.Count(61) != 1 {
					s.Violate("C04: HTTP call got a result but its handler ran %d times", srv.Count(61))
				}
				obs.Set("ret-cut", "%d/%s", v, errClass(err))
				v, err = cli.Echo(context.Background(), 62)
				obs.Set("ret-after", "%d/%s", v, errClass(err))
			})
		},
	})
}

// splitHTTP splits the bytes of one direction of a keep-alive HTTP/1.1 connection into messages.
func splitHTTP(wire string) []string {
	var out []string
	for len(wire) > 0 {
		he := strings.Index(wire, "\r\n\r\n")
		if he < 0 {
			out = append(out, wire)
			break
		}
		head := wire[:he+4]
		n := 0
		for _, l := range strings.Split(head, "\r\n") {
			if strings.HasPrefix(strings.ToLower(l), "content-length:") {
				fmt.Sscanf(strings.TrimSpace(l[len("content-length:"):]), "%d", &n)
			}
		}
		if he+4+n > len(wire) {
			n = len(wire) - he - 4
		}
		out = append(out, wire[:he+4+n])
		wire = wire[he+4+n:]
	}
	return out
}

func httpBody(msg string) string {
	if i := strings.Index(msg, "\r\n\r\n"); i >= 0 {
		return msg[i+4:]
	}
	return ""
}
