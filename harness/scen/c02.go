package scen

import (
	"context"
	"fmt"
	"strings"
	"sync"

	jsonrpc "github.com/filecoin-project/go-jsonrpc"

	"verifharness/vnet"
	"verifharness/vsched"
)

// EchoSrv is the server-side handler used by the concurrency scenarios: Echo parks at an
// environment gate until the scheduler lets it complete.
type EchoSrv struct {
	s     *vsched.Sched
	mu    sync.Mutex
	Calls map[int]int
	hold  bool
}

func (e *EchoSrv) Count(tok int) int {
	e.mu.Lock()
	defer e.mu.Unlock()
	return e.Calls[tok]
}

func (e *EchoSrv) Echo(ctx context.Context, tok int) (int, error) {
	e.mu.Lock()
	e.Calls[tok]++
	e.mu.Unlock()
	if e.hold {
		e.s.Env(fmt.Sprintf("complete-%d", tok))
	}
	return tok, nil
}

// Echo2 is a second method with the same behaviour: concurrent calls to *different* methods
// of one client must still get distinct ids.
func (e *EchoSrv) Echo2(ctx context.Context, tok int) (int, error) { return e.Echo(ctx, tok) }

type EchoCli struct {
	Echo  func(ctx context.Context, tok int) (int, error)
	Echo2 func(ctx context.Context, tok int) (int, error)
}

// S-CONC: n concurrent callers on one client (DESIGN §3 C02).
func init() {
	Register(&Scenario{
		Name:        "conc",
		OptsToo:     true,
		LazyDescToo: true,
		LazyToo:     true,
		DescToo:     true,
		Property:    "C02",
		Params: func(tier string) []Param {
			var ps []Param
			if tier == "quick" {
				ps = append(ps,
					Param{Name: "ws-n2-p1", Bound: 2, V: map[string]int{"n": 2, "ws": 1, "phases": 1}},
					Param{Name: "ws-n2-p2", Bound: 1, V: map[string]int{"n": 2, "ws": 1, "phases": 2}},
					Param{Name: "http-n3", Bound: 1, V: map[string]int{"n": 3, "ws": 0, "phases": 1}},
				)
			} else {
				ps = append(ps,
					Param{Name: "ws-n2-p1", Bound: 3, V: map[string]int{"n": 2, "ws": 1, "phases": 1}},
					Param{Name: "ws-n3-p1", Bound: 3, V: map[string]int{"n": 3, "ws": 1, "phases": 1}},
					Param{Name: "ws-n2-p2", Bound: 3, V: map[string]int{"n": 2, "ws": 1, "phases": 2}},
					Param{Name: "ws-n4-p1", Bound: 1, V: map[string]int{"n": 4, "ws": 1, "phases": 1}},
					Param{Name: "http-n3", Bound: 3, V: map[string]int{"n": 3, "ws": 0, "phases": 1}},
					Param{Name: "http-n4", Bound: 2, V: map[string]int{"n": 4, "ws": 0, "phases": 1}},
				)
			}
			// many callers on the library's default HTTP client, whose handlers all wait for each
			// other (none finishes before every call has reached the server): "any number of calls"
			for _, n := range []int{33, 101, 130} {
				ps = append(ps, Param{Name: fmt.Sprintf("http-dflt-n%d-rdv", n), Bound: 0, V: map[string]int{"n": n, "ws": 0, "phases": 1, "dflt": 1, "rdv": 1}})
			}
			ps = append(ps, Param{Name: "ws-n130-rdv", Bound: 0, V: map[string]int{"n": 130, "ws": 1, "phases": 1, "rdv": 1}})
			return ps
		},
		Body: concBody,
	})
}

func concBody(s *vsched.Sched, p Param) {
	n, phases := p.I("n"), p.I("phases")
	w := NewWorld(s, jsonrpc.WithServerPingInterval(0))
	srv := &EchoSrv{s: s, Calls: map[int]int{}, hold: true}
	w.RPC.Register("T", srv)
	w.Serve()
	var cli EchoCli
	var err error
	if p.I("ws") == 1 {
		_, err = w.WS("T", &cli, jsonrpc.WithPingInterval(0), jsonrpc.WithNoReconnect())
	} else if p.I("dflt") == 1 {
		_, err = w.DefaultHTTPClient("T", &cli)
	} else {
		_, err = w.HTTPClient("T", &cli)
	}
	if err != nil {
		s.Violate("setup: %v", err)
		return
	}
	obs := NewObs()
	s.Teardown = w.Teardown
	if p.I("rdv") == 1 {
		s.EnvEnabled = func(name string) bool {
			if strings.HasPrefix(name, "complete-") {
				for i := 0; i < n; i++ {
					if srv.Count(100+i) == 0 {
						return false
					}
				}
			}
			return true
		}
	}
	s.Finish = func() {
		for i := 0; i < n; i++ {
			for ph := 0; ph < phases; ph++ {
				tok := 100*(ph+1) + i
				k := fmt.Sprintf("ret-%d", tok)
				v, ok := obs.Get(k)
				if !ok {
					s.Violate("call %d never returned (lost response); alive: %s", tok, strings.Join(s.Alive(), " "))
					continue
				}
				if v != fmt.Sprintf("%d/<nil>", tok) {
					s.Violate("call %d returned %s, want its own token and a nil error", tok, v)
				}
				if srv.Count(tok) != 1 {
					s.Violate("handler ran %d times for token %d", srv.Count(tok), tok)
				}
			}
		}
		if p.I("ws") == 1 {
			checkWireOneResponsePerID(s, w, n*phases)
		}
		s.SetObs(obs.String())
	}
	s.Begin()
	for i := 0; i < n; i++ {
		i := i
		s.Go(fmt.Sprintf("caller-%d", i), func() {
			for ph := 0; ph < phases; ph++ {
				tok := 100*(ph+1) + i
				call := cli.Echo
				if i%2 == 1 {
					call = cli.Echo2
				}
				v, err := call(context.Background(), tok)
				k := fmt.Sprintf("ret-%d", tok)
				if _, dup := obs.Get(k); dup {
					s.Violate("call %d returned twice", tok)
				}
				obs.Set(k, "%d/%v", v, err)
				obs.Set(fmt.Sprintf("order-%d", tok), "%d", obs.Len())
			}
		})
	}
}

// checkWireOneResponsePerID checks on the wire log of link 0 that every request id was
// written exactly once and answered exactly once.
func checkWireOneResponsePerID(s *vsched.Sched, w *World, want int) {
	if len(w.Net.Links) == 0 {
		s.Violate("no link")
		return
	}
	lk := w.Net.Links[0]
	reqs, st1 := WireFrames(lk, vnet.C2S)
	resps, st2 := WireFrames(lk, vnet.S2C)
	for _, e := range append(st1.Errors, st2.Errors...) {
		s.Violate("wire framing: %s", e)
	}
	seenReq := map[string]int{}
	for _, f := range reqs {
		if f.Bad {
			s.Violate("malformed request frame %q", f.Raw)
		}
		if f.Method != "" && len(f.ID) > 0 {
			seenReq[string(f.ID)]++
		}
	}
	seenResp := map[string]int{}
	for _, f := range resps {
		if f.Bad {
			s.Violate("malformed response frame %q", f.Raw)
		}
		if f.Method == "" {
			seenResp[string(f.ID)]++
		}
	}
	if len(seenReq) != want {
		s.Violate("wire: %d distinct request ids, want %d", len(seenReq), want)
	}
	for id, c := range seenReq {
		if c != 1 {
			s.Violate("wire: request id %s written %d times", id, c)
		}
		if seenResp[id] != 1 {
			s.Violate("wire: request id %s got %d responses", id, seenResp[id])
		}
	}
	for id := range seenResp {
		if seenReq[id] == 0 {
			s.Violate("wire: response for id %s that was never requested", id)
		}
	}
}
