package scen

import (
	"encoding/json"
	"fmt"
	"os"
	"regexp"
	"strconv"
	"strings"
	"testing"
	"testing/synctest"
	"time"

	"verifharness/vsched"
)

// WorkerResult is what one worker process reports for one parameter tuple.
type WorkerResult struct {
	Scenario   string            `json:"scenario"`
	Param      string            `json:"param"`
	Bound      int               `json:"bound"`
	Shard      int               `json:"shard"`
	NShards    int               `json:"nshards"`
	Stats      vsched.Stats      `json:"stats"`
	Obs        map[string]int    `json:"distinct_obs"`
	Violations []ViolationRecord `json:"violations"`
	Samples    [][]int           `json:"sample_schedules"`
	WallS      float64           `json:"wall_s"`
	HarnessErr string            `json:"harness_error,omitempty"`
}

// ViolationRecord is a replayable counterexample.
type ViolationRecord struct {
	Scenario string   `json:"scenario"`
	Param    Param    `json:"param"`
	Choices  []int    `json:"choices"`
	Messages []string `json:"messages"`
	Obs      string   `json:"obs"`
	Terminal string   `json:"terminal"`
	Panic    string   `json:"panic,omitempty"`
	Trace    []string `json:"trace,omitempty"`
}

func env(k, def string) string {
	if v := os.Getenv(k); v != "" {
		return v
	}
	return def
}

func TestSelfTest(t *testing.T) {
	synctest.Test(t, func(t *testing.T) {
		if err := vsched.SelfTest(synctest.Wait); err != nil {
			t.Fatal(err)
		}
	})
}

// execViolations collects everything that makes one execution a violation.
var tagRe = regexp.MustCompile(`^C\d\d:`)

func execViolations(x *vsched.Exec) []string {
	var v []string
	tags := os.Getenv("VTAGS")
	for _, m := range x.Violations {
		// a scenario may serve several properties; only messages of the property being checked
		// (and untagged ones) count in this run
		if tags != "" && tagRe.MatchString(m) && !strings.Contains(","+tags+",", ","+m[:3]+",") {
			continue
		}
		v = append(v, m)
	}
	if x.Panic != "" {
		v = append(v, "PANIC in a library goroutine (would kill the process): "+firstLines(x.Panic, 12))
	}
	if x.Terminal == "stepcap" {
		v = append(v, "step cap reached: the system never went quiescent (livelock)")
	}
	return v
}

func firstLines(s string, n int) string {
	l := strings.Split(s, "\n")
	if len(l) > n {
		l = l[:n]
	}
	return strings.Join(l, "\n")
}

func TestExplore(t *testing.T) {
	name := os.Getenv("VSCEN")
	if name == "" {
		t.Skip("VSCEN not set")
	}
	sc := Registry[name]
	if sc == nil {
		t.Fatalf("unknown scenario %q", name)
	}
	tier := env("VTIER", "quick")
	shard, nshards := 0, 1
	if v := os.Getenv("VSHARD"); v != "" {
		fmt.Sscanf(v, "%d/%d", &shard, &nshards)
	}
	budget, _ := strconv.Atoi(env("VBUDGET", "0"))
	maxViol, _ := strconv.Atoi(env("VMAXVIOL", "5"))
	only := os.Getenv("VPARAM")
	boundOverride, _ := strconv.Atoi(env("VBOUND", "-1"))
	out := os.Getenv("VOUT")
	var results []WorkerResult
	var deadline time.Time
	if budget > 0 {
		deadline = time.Now().Add(time.Duration(budget) * time.Second)
	}
	all := sc.AllParams(tier)
	runTuple := func(p Param, tupleDeadline time.Time) WorkerResult {
		t0 := time.Now()
		res := WorkerResult{Scenario: name, Param: p.Name, Bound: p.Bound, Shard: shard, NShards: nshards}
		ex := &vsched.Explorer{Bound: p.Bound, Shard: shard, NShards: nshards, Deadline: tupleDeadline}
		cfg := sc.Cfg
		cfg.Desc = p.V["desc"] == 1
		cfg.LazyStart = p.V["lazy"] == 1
		AllOpts.Store(p.V["opts"] == 1)
		ex.Run = func(prefix []int, fps []uint64) *vsched.Exec {
			return vsched.RunOnce(t, cfg, prefix, fps, func(s *vsched.Sched) { sc.Body(s, p) })
		}
		ex.OnExec = func(x *vsched.Exec) bool {
			if x.Diverged != "" {
				res.HarnessErr = "HARNESS-NONDETERMINISM: " + x.Diverged
				return false
			}
			if v := execViolations(x); len(v) > 0 {
				res.Violations = append(res.Violations, ViolationRecord{
					Scenario: name, Param: p, Choices: x.Choices(), Messages: v, Obs: x.Obs, Terminal: x.Terminal, Panic: firstLines(x.Panic, 30),
				})
				if len(res.Violations) >= maxViol {
					return false
				}
			}
			return true
		}
		ex.Explore()
		res.Stats = ex.Stats
		res.Obs = ex.Stats.DistinctObs
		res.Samples = ex.Stats.SampleSchedules
		res.WallS = time.Since(t0).Seconds()
		t.Logf("%s/%s bound=%d shard=%d/%d execs=%d transitions=%d distinct=%d viol=%d capped=%q %.1fs",
			name, p.Name, p.Bound, shard, nshards, ex.Stats.Executions, ex.Stats.Transitions, len(ex.Stats.DistinctObs), len(res.Violations), ex.Stats.Capped, res.WallS)
		return res
	}
	var ran []Param
	for pi, p := range all {
		if only != "" && only != p.Name {
			continue
		}
		var tupleDeadline time.Time
		if budget > 0 {
			// budget policy, first pass: a tuple may use up to four times its fair share of what is
			// left (small tuples finish early and give their share back), and never less than two
			// seconds
			left := time.Until(deadline)
			if left < 0 {
				left = 0
			}
			share := 4 * left / time.Duration(len(all)-pi)
			if share > left {
				share = left
			}
			if share < 2*time.Second {
				share = 2 * time.Second
			}
			tupleDeadline = time.Now().Add(share)
		}
		if boundOverride >= 0 {
			p.Bound = boundOverride
		}
		results = append(results, runTuple(p, tupleDeadline))
		ran = append(ran, p)
	}
	// second pass: whatever is left of the budget goes to the tuples that were cut short, in
	// order, each getting an equal part of the remainder (the level-by-level search starts again;
	// the deeper of the two results is kept)
	if budget > 0 {
		var capped []int
		for i, r := range results {
			if r.Stats.Capped != "" && len(r.Violations) == 0 && r.HarnessErr == "" {
				capped = append(capped, i)
			}
		}
		for k, i := range capped {
			left := time.Until(deadline)
			if left < 10*time.Second {
				break
			}
			share := left / time.Duration(len(capped)-k)
			if prev := time.Duration(results[i].WallS * float64(time.Second)); share < 2*prev {
				continue // not enough to get further than the first pass did
			}
			r2 := runTuple(ran[i], time.Now().Add(share))
			if r2.Stats.BoundCompleted >= results[i].Stats.BoundCompleted || len(r2.Violations) > 0 {
				r2.WallS += results[i].WallS
				results[i] = r2
			}
		}
	}
	if out != "" {
		b, _ := json.Marshal(results)
		if err := os.WriteFile(out, b, 0o644); err != nil {
			t.Fatal(err)
		}
	}
}

// TestReplay re-executes one recorded schedule (VREPLAY = path of a violation record) with
// the full trace, without the explorer.
func TestReplay(t *testing.T) {
	path := os.Getenv("VREPLAY")
	if path == "" {
		t.Skip("VREPLAY not set")
	}
	b, err := os.ReadFile(path)
	if err != nil {
		t.Fatal(err)
	}
	var rec ViolationRecord
	if err := json.Unmarshal(b, &rec); err != nil {
		t.Fatal(err)
	}
	sc := Registry[rec.Scenario]
	if sc == nil {
		t.Fatalf("unknown scenario %q", rec.Scenario)
	}
	cfg := sc.Cfg
	cfg.Desc = rec.Param.V["desc"] == 1
	cfg.LazyStart = rec.Param.V["lazy"] == 1
	AllOpts.Store(rec.Param.V["opts"] == 1)
	cfg.Trace = os.Getenv("VNOTRACE") == ""
	if os.Getenv("VPRE") != "" {
		vsched.RunOnce(t, sc.Cfg, nil, nil, func(s *vsched.Sched) { sc.Body(s, rec.Param) })
	}
	x := vsched.RunOnce(t, cfg, rec.Choices, nil, func(s *vsched.Sched) { sc.Body(s, rec.Param) })
	v := execViolations(x)
	res := map[string]interface{}{"violations": v, "obs": x.Obs, "terminal": x.Terminal, "diverged": x.Diverged, "trace": x.Trace, "choices": x.Choices(), "leaked": x.Leaked}
	ob, _ := json.MarshalIndent(res, "", " ")
	if out := os.Getenv("VOUT"); out != "" {
		os.WriteFile(out, ob, 0o644)
	} else {
		fmt.Println(string(ob))
	}
}

// TestFreeRun runs every parameter tuple of a scenario VRUNS times with pass-through gates
// and real concurrency. Built with -race it is the free-running data-race guard (DESIGN §2.7):
// the cooperative scheduler's hand-offs are happens-before edges that blind the detector.
func TestFreeRun(t *testing.T) {
	name := os.Getenv("VSCEN")
	if name == "" {
		t.Skip("VSCEN not set")
	}
	sc := Registry[name]
	if sc == nil {
		t.Fatalf("unknown scenario %q", name)
	}
	runs, _ := strconv.Atoi(env("VRUNS", "3"))
	n := 0
	for _, p := range sc.AllParams(env("VTIER", "quick")) {
		for i := 0; i < runs; i++ {
			cfg := sc.Cfg
			cfg.FreeRun = true
			AllOpts.Store(p.V["opts"] == 1)
			x := vsched.RunOnce(t, cfg, nil, nil, func(s *vsched.Sched) { sc.Body(s, p) })
			n++
			if x.Panic != "" {
				t.Logf("free run %s/%s: PANIC %s", name, p.Name, firstLines(x.Panic, 6))
			}
		}
	}
	t.Logf("free-running executions: %d", n)
}

// TestRegressions re-explores, as a plain test without the driver, the parameter tuples on
// which the explorer found the genuine defects of DESIGN §5.1 (at the bound that exposed
// them). It passes on the repaired tree and fails on a tree that lacks one of the repairs.
func TestRegressions(t *testing.T) {
	if os.Getenv("VREGRESS") == "" {
		t.Skip("VREGRESS not set")
	}
	cases := []struct {
		finding, scen, param, tags string
		bound                      int
	}{
		{"F5", "fault", "fin-s2c-f0-mid-payload-b@window-a=plain-2nd=none", "C03", 0},
		{"F5", "fault", "fin-s2c-f0-last-byte-b@early-a=plain-2nd=none", "C03", 0},
		{"F6", "term", "respcut-fin-rc0-desc", "C08", 2},
		{"F6", "term", "respcut-rst-rc0-desc", "C08", 2},
		{"F4", "connend", "close-unary-later1", "C15", 0},
		{"F4", "connend", "close-big-later0", "C15", 0},
		{"F11", "connend", "srvctx-unary-later0-garbage", "C15", 1},
		{"F7", "reader", "n1-pat3-len4097", "C20", 1},
		{"F7", "reader", "n1-pat4-len0", "C20", 0},
		{"F13", "stream", "k2-l3,3-noctx", "C07", 0},
		{"F14", "keepalive", "healthy-p5-t30-sp0-slowbig", "C17", 0},
		{"F14", "keepalive", "healthy-p1-t3-sp1-slowbig", "C17", 0},
	}
	for _, c := range cases {
		sc := Registry[c.scen]
		var prm *Param
		for _, tier := range []string{"quick", "thorough"} {
			for _, p := range sc.AllParams(tier) {
				if p.Name == c.param && prm == nil {
					p := p
					prm = &p
				}
			}
		}
		if prm == nil {
			t.Errorf("%s: tuple %s/%s no longer exists", c.finding, c.scen, c.param)
			continue
		}
		os.Setenv("VTAGS", c.tags)
		cfg := sc.Cfg
		cfg.Desc = prm.V["desc"] == 1
		cfg.LazyStart = prm.V["lazy"] == 1
		AllOpts.Store(prm.V["opts"] == 1)
		var bad []string
		n := 0
		ex := &vsched.Explorer{Bound: c.bound}
		ex.Run = func(prefix []int, fps []uint64) *vsched.Exec {
			return vsched.RunOnce(t, cfg, prefix, fps, func(s *vsched.Sched) { sc.Body(s, *prm) })
		}
		ex.OnExec = func(x *vsched.Exec) bool {
			n++
			if v := execViolations(x); len(v) > 0 {
				bad = v
				return false
			}
			return true
		}
		ex.Explore()
		if len(bad) > 0 {
			t.Errorf("%s regressed: %s/%s bound %d after %d executions: %s", c.finding, c.scen, c.param, c.bound, n, firstLines(strings.Join(bad, "\n"), 4))
		} else {
			t.Logf("%s: %s/%s bound %d: %d executions, no violation", c.finding, c.scen, c.param, c.bound, n)
		}
	}
}
