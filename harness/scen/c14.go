package scen

import (
	"context"
	"encoding/json"
	"fmt"
	"strings"
	"sync"
	"sync/atomic"
	"time"

	jsonrpc "github.com/filecoin-project/go-jsonrpc"

	"verifharness/vnet"
	"verifharness/vsched"
)

type WrRev struct {
	Ping        func(ctx context.Context, x int) (int, error)
	PingHold    func(ctx context.Context, x int) (int, error)
	PingHoldBig func(ctx context.Context, x int) (string, error)
}

type WrRevHnd struct {
	s       *vsched.Sched
	entered *atomic.Int32
}

func (WrRevHnd) Ping(ctx context.Context, x int) (int, error) { return x + 1, nil }

// PingHold answers only once the client has swapped in a new connection: its response is
// written by a handler that started on the previous connection.
func (h WrRevHnd) PingHold(ctx context.Context, x int) (int, error) {
	h.entered.Add(1)
	h.s.Env(fmt.Sprintf("revhold-go-%d", x))
	return x + 1, nil
}

// PingHoldBig is PingHold with an answer larger than the connection's write buffer.
func (h WrRevHnd) PingHoldBig(ctx context.Context, x int) (string, error) {
	h.entered.Add(1)
	h.s.Env(fmt.Sprintf("revhold-go-%d", x))
	return strings.Repeat("w", 9000), nil
}

type WrSrv struct {
	s  *vsched.Sched
	mu sync.Mutex
}

func (h *WrSrv) Echo(ctx context.Context, tok int) (int, error) { return tok, nil }

func (h *WrSrv) Hold(ctx context.Context, tok int) (int, error) {
	<-ctx.Done()
	return tok, nil
}

func (h *WrSrv) Big(ctx context.Context, n int) (string, error) { return strings.Repeat("z", n), nil }

func (h *WrSrv) Sub(ctx context.Context, id int) (<-chan int, error) {
	out := make(chan int)
	h.s.Go(fmt.Sprintf("prod-%d", id), func() {
		defer close(out)
		for j := 0; j < 2; j++ {
			select {
			case out <- j:
			case <-ctx.Done():
				return
			}
		}
		<-ctx.Done()
	})
	return out, nil
}

func (h *WrSrv) Rev(ctx context.Context, x int) (int, error) {
	rc, ok := jsonrpc.ExtractReverseClient[WrRev](ctx)
	if !ok {
		return -1, nil
	}
	return rc.Ping(ctx, x)
}

func (h *WrSrv) RevHold(ctx context.Context, x int) (int, error) {
	rc, ok := jsonrpc.ExtractReverseClient[WrRev](ctx)
	if !ok {
		return -1, nil
	}
	return rc.PingHold(ctx, x)
}

func (h *WrSrv) RevHoldBig(ctx context.Context, x int) (int, error) {
	rc, ok := jsonrpc.ExtractReverseClient[WrRev](ctx)
	if !ok {
		return -1, nil
	}
	v, err := rc.PingHoldBig(ctx, x)
	return len(v), err
}

type WrCli struct {
	RevHoldBig func(ctx context.Context, x int) (int, error)
	RevHold    func(ctx context.Context, x int) (int, error)
	Echo       func(ctx context.Context, tok int) (int, error)
	Hold       func(ctx context.Context, tok int) (int, error)
	Big        func(ctx context.Context, n int) (string, error)
	Sub        func(ctx context.Context, id int) (<-chan int, error)
	Rev        func(ctx context.Context, x int) (int, error)
}

// S-WRITERS (DESIGN §3 C14): every vnet write is a schedule point, so a writer can be
// pre-empted between the frames of one message.
func init() {
	Register(&Scenario{
		Name:     "writers",
		LazyToo:  true,
		DescToo:  true,
		Property: "C14",
		Cfg:      vsched.Config{Horizon: 3500 * time.Millisecond},
		Params: func(tier string) []Param {
			var ps []Param
			add := func(name string, bound int, v map[string]int) { ps = append(ps, Param{Name: name, Bound: bound, V: v}) }
			if tier == "quick" {
				add("s16", 1, map[string]int{"size": 16})
				add("s5000", 1, map[string]int{"size": 5000})
				add("s70000", 0, map[string]int{"size": 70000})
				add("s5000-pings", 1, map[string]int{"size": 5000, "pings": 1})
				add("s16-reconnect", 1, map[string]int{"size": 16, "reconnect": 1})
				// a peer that also sends frames the library must ignore or refuse (not JSON, bad id
				// type): whatever the library does about them must respect the write discipline
				add("s5000-garbage", 1, map[string]int{"size": 5000, "garbage": 1})
				// a reverse handler that is still running when the connection is replaced, and a
				// reverse call on the new connection
				add("s16-reconnect-revhold", 1, map[string]int{"size": 16, "reconnect": 1, "revhold": 1})
				// a writer stuck in a write on the old connection (the peer stopped reading) while
				// holding the write lock, a second writer queued behind it, the read side ends, the
				// client redials; then the old socket is reset and both writers come back to life
				add("s16-stuckwriter", 1, map[string]int{"size": 16, "reconnect": 1, "stuck": 1})
				return ps
			}
			add("s16", 2, map[string]int{"size": 16})
			add("s5000", 2, map[string]int{"size": 5000})
			add("s70000", 1, map[string]int{"size": 70000})
			add("s5000-pings", 1, map[string]int{"size": 5000, "pings": 1})
			add("s16-pings", 2, map[string]int{"size": 16, "pings": 1})
			add("s16-reconnect", 2, map[string]int{"size": 16, "reconnect": 1})
			add("s5000-reconnect-pings", 1, map[string]int{"size": 5000, "reconnect": 1, "pings": 1})
			add("s5000-garbage", 2, map[string]int{"size": 5000, "garbage": 1})
			add("s70000-garbage", 1, map[string]int{"size": 70000, "garbage": 1})
			add("s16-reconnect-revhold", 2, map[string]int{"size": 16, "reconnect": 1, "revhold": 1})
			add("s5000-reconnect-revhold-pings", 1, map[string]int{"size": 5000, "reconnect": 1, "revhold": 1, "pings": 1})
			add("s16-stuckwriter", 2, map[string]int{"size": 16, "reconnect": 1, "stuck": 1})
			return ps
		},
		Body: writersBody,
	})
}

func writersBody(s *vsched.Sched, p Param) {
	sopts := []jsonrpc.ServerOption{jsonrpc.WithReverseClient[WrRev]("R")}
	var holdEntered atomic.Int32
	copts := []jsonrpc.Option{jsonrpc.WithClientHandler("R", WrRevHnd{s: s, entered: &holdEntered})}
	if p.I("pings") == 1 {
		sopts = append(sopts, jsonrpc.WithServerPingInterval(time.Second))
		copts = append(copts, jsonrpc.WithPingInterval(time.Second), jsonrpc.WithTimeout(3*time.Second))
	} else {
		sopts = append(sopts, jsonrpc.WithServerPingInterval(0))
		copts = append(copts, jsonrpc.WithPingInterval(0), jsonrpc.WithTimeout(0))
	}
	if p.I("reconnect") == 1 {
		copts = append(copts, jsonrpc.WithReconnectBackoff(10*time.Millisecond, 40*time.Millisecond))
	} else {
		copts = append(copts, jsonrpc.WithNoReconnect())
	}
	w := NewWorld(s, sopts...)
	w.YieldOnWrite = true
	srv := &WrSrv{s: s}
	w.RPC.Register("T", srv)
	w.Serve()
	var cli WrCli
	closer, err := w.WS("T", &cli, copts...)
	if err != nil {
		s.Violate("HARNESS: setup: %v", err)
		return
	}
	obs := NewObs()
	holdCtx, holdCancel := context.WithCancel(context.Background())
	subCtx, subCancel := context.WithCancel(context.Background())
	s.Teardown = func() { holdCancel(); subCancel(); w.Teardown() }
	size := p.I("size")
	stuck := p.I("stuck") == 1
	stage := 0 // stuck-writer variant: 1 stalled, 2 read side ended, 3 redialled, 4 old socket reset
	okDials := func() int {
		n := 0
		for _, d := range w.Net.Dials() {
			if d.OK {
				n++
			}
		}
		return n
	}
	s.EnvEnabled = func(name string) bool {
		switch name {
		case "close-go":
			return s.Now() >= 2500*time.Millisecond
		case "revhold-go-20":
			if stuck {
				return stage >= 1 // after the client->server direction has stalled
			}
			return okDials() >= 2
		case "revhold-go-30":
			return stage >= 1
		case "rev2-go":
			if stuck {
				return stage >= 4
			}
			return okDials() >= 2
		case "closerev-go":
			_, a := obs.Get("rev2")
			return a
		}
		return true
	}
	if stuck {
		s.OnQuiesce = func() bool {
			_, a := obs.Get("e1")
			_, b := obs.Get("e2")
			_, c := obs.Get("big")
			_, d := obs.Get("rev")
			switch {
			case stage == 0 && a && b && c && d && holdEntered.Load() >= 2:
				w.Net.Link(0).Stall(vnet.C2S) // the peer stops reading; the two held handlers are released
				stage = 1
			case stage == 1:
				w.Net.Link(0).HalfClose(vnet.S2C) // the client's reader sees end-of-file
				stage = 2
			case stage == 2 && okDials() >= 2:
				stage = 3
			case stage == 3:
				w.Net.Link(0).Sever(vnet.RST) // the stuck write fails at last
				stage = 4
			default:
				return false
			}
			return true
		}
	}
	s.Finish = func() {
		checkWireIntegrity(s, w)
		if stuck && stage < 4 {
			s.Violate("HARNESS: the stuck-writer sequence stopped at stage %d; alive: %s", stage, strings.Join(s.Alive(), " "))
		}
		for _, k := range []string{"e1", "e2", "big", "rev"} {
			if _, ok := obs.Get(k); !ok {
				s.Violate("C14: call %s never returned; alive: %s", k, strings.Join(s.Alive(), " "))
			}
		}
		// a call may fail (the closer and the cut are placed anywhere), but a call that
		// succeeds must carry its undamaged result
		if v, _ := obs.Get("big"); strings.HasSuffix(v, "/<nil>") && v != fmt.Sprintf("len%d/<nil>", size) {
			s.Violate("C14: the %d-byte response arrived damaged: %s", size, v)
		}
		if v, _ := obs.Get("rev"); strings.HasSuffix(v, "/<nil>") && v != "8/<nil>" {
			s.Violate("C14: reverse call result damaged: %s", v)
		}
		if p.I("revhold") == 1 || stuck {
			if v, ok := obs.Get("rev2"); !ok {
				s.Violate("C14: the call made after the reconnect never returned; alive: %s", strings.Join(s.Alive(), " "))
			} else if strings.HasSuffix(v, "/<nil>") && v != "10/<nil>" {
				s.Violate("C14: reverse call result on the new connection damaged: %s", v)
			}
		}
		for k, want := range map[string]string{"e1": "60/<nil>", "e2": "61/<nil>"} {
			if v, _ := obs.Get(k); strings.HasSuffix(v, "/<nil>") && v != want {
				s.Violate("C14: call %s result damaged: %s", k, v)
			}
		}
		obs.Set("wire", "%s", wireOrder(w))
		pings := 0
		for li := 0; li < w.Net.LinkCount(); li++ {
			for _, d := range []vnet.Dir{vnet.C2S, vnet.S2C} {
				for _, m := range vnet.ParseWS(w.Net.Link(li).Wire(d)).Messages {
					if m.Opcode == 9 {
						pings++
					}
				}
			}
		}
		obs.Set("pings", "%d", pings)
		if p.I("pings") == 1 && pings == 0 {
			s.Violate("HARNESS: the ping variant wrote no ping frame")
		}
		s.SetObs(obs.String())
	}
	s.Begin()
	s.Go("c-e1", func() { v, err := cli.Echo(context.Background(), 60); obs.Set("e1", "%d/%s", v, errClass(err)) })
	s.Go("c-e2", func() { v, err := cli.Echo(context.Background(), 61); obs.Set("e2", "%d/%s", v, errClass(err)) })
	s.Go("c-big", func() {
		v, err := cli.Big(context.Background(), size)
		obs.Set("big", "len%d/%s", len(v), errClass(err))
	})
	s.Go("c-rev", func() { v, err := cli.Rev(context.Background(), 7); obs.Set("rev", "%d/%s", v, errClass(err)) })
	s.Go("c-hold", func() { v, err := cli.Hold(holdCtx, 5); obs.Set("hold", "%d/%s", v, errClass(err)) })
	s.Go("c-sub", func() {
		ch, err := cli.Sub(subCtx, 1)
		obs.Set("sub", "%v/%s", ch != nil, errClass(err))
		if err == nil && ch != nil {
			for range ch {
			}
		}
	})
	s.Go("zcancel-hold", func() { holdCancel() }) // cancel path 1: while the caller waits
	s.Go("zcancel-sub", func() { subCancel() })   // cancel path 2: after the subscribing call returned
	if p.I("reconnect") == 1 && !stuck {
		s.Go("zcut", func() { w.Net.Link(0).Sever(vnet.FIN) })
	}
	if stuck {
		s.Go("c-revholdbig", func() {
			v, err := cli.RevHoldBig(context.Background(), 20)
			obs.Set("revholdbig", "%d/%s", v, errClass(err))
		})
		s.Go("c-revhold2", func() {
			v, err := cli.RevHold(context.Background(), 30)
			obs.Set("revhold2", "%d/%s", v, errClass(err))
		})
		s.Go("zrev2", func() {
			s.Env("rev2-go")
			v, err := cli.Rev(context.Background(), 9)
			obs.Set("rev2", "%d/%s", v, errClass(err))
		})
	}
	if p.I("revhold") == 1 {
		s.Go("c-revhold", func() { v, err := cli.RevHold(context.Background(), 20); obs.Set("revhold", "%d/%s", v, errClass(err)) })
		s.Go("zrev2", func() {
			s.Env("rev2-go")
			v, err := cli.Rev(context.Background(), 9)
			obs.Set("rev2", "%d/%s", v, errClass(err))
		})
	}
	if p.I("garbage") == 1 {
		// malformed frames in both directions, placed anywhere by one deviation each
		s.Go("zgarbage-c2s", func() {
			w.Net.Link(0).Inject(vnet.C2S, vnet.TextFrame([]byte(`{"jsonrpc":"2.0","id":{"x":1},"method":"T.Echo","params":[1]}`), true))
			w.Net.Link(0).Inject(vnet.C2S, vnet.TextFrame([]byte(`{not json`), true))
		})
		// (server->client garbage is not injected here: the server writes multi-frame messages
		// and an injection between two of its frames would itself be the interleaving; hostile
		// frames towards a client are C10's target B)
	}
	s.Go("zzcloser", func() {
		if p.I("pings") == 1 {
			s.Env("close-go") // let a few ping rounds happen first
		}
		if p.I("revhold") == 1 || stuck {
			s.Env("closerev-go") // after the call on the new connection
		}
		closer()
		obs.Set("closed", "1")
	})
}

// checkWireIntegrity: C14's oracle over every link and both directions.
// payloads the scenarios inject as a misbehaving peer
var injected = map[string]bool{
	`{"jsonrpc":"2.0","id":{"x":1},"method":"T.Echo","params":[1]}`: true,
	`{not json`: true,
}

func checkWireIntegrity(s *vsched.Sched, w *World) {
	for li := 0; li < w.Net.LinkCount(); li++ {
		lk := w.Net.Link(li)
		fault, _ := lk.Fault()
		for _, d := range []vnet.Dir{vnet.C2S, vnet.S2C} {
			st := vnet.ParseWS(lk.Wire(d))
			for _, e := range st.Errors {
				s.Violate("C14: link %d %s: WebSocket framing violated: %s", li, d, e)
			}
			cc, sc := lk.ClosedEnds()
			if st.Truncated && fault == vnet.None && !cc && !sc {
				s.Violate("C14: link %d %s: the byte stream ends inside a message although the link was never cut", li, d)
			}
			for _, m := range st.Data() {
				if injected[string(m.Payload)] {
					continue // put on the wire by the scenario's misbehaving peer, not by the library
				}
				var f map[string]json.RawMessage
				if err := json.Unmarshal(m.Payload, &f); err != nil {
					s.Violate("C14: link %d %s: message at offset %d is not one well-formed JSON value (%v): %.120q", li, d, m.Off, err, m.Payload)
					continue
				}
				if string(f["jsonrpc"]) != `"2.0"` {
					s.Violate("C14: link %d %s: message is not a JSON-RPC 2.0 frame: %.120q", li, d, m.Payload)
				}
			}
			// lockset discipline: all data-frame and ping writes share at least one held mutex
			var common map[uintptr]bool
			nw := 0
			for _, rec := range lk.WriteLog(d) {
				if rec.Off < st.HandshakeLen || strings.HasPrefix(rec.Who, "zgarbage") {
					continue
				}
				op := -1
				for i, b := range st.FrameBounds {
					if rec.Off >= b[0] && rec.Off < b[1] {
						op = st.FrameOps[i]
					}
				}
				if op == 10 || op == 8 || op == -1 {
					continue // pong / close echo written from gorilla's read path; or a torn tail
				}
				nw++
				held := map[uintptr]bool{}
				for _, h := range rec.Held {
					held[h] = true
				}
				if common == nil {
					common = held
				} else {
					for h := range common {
						if !held[h] {
							delete(common, h)
						}
					}
				}
				if len(common) == 0 {
					s.Violate("C14: link %d %s: write at offset %d (opcode %d) by %s happened while none of the locks that protected the earlier writes was held by anyone (held now %v): writers are not serialised by a common lock", li, d, rec.Off, op, rec.Who, rec.Held)
					break
				}
			}
			_ = nw
		}
	}
}
