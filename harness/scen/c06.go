package scen

import (
	"bytes"
	"context"
	"encoding/json"
	"fmt"
	"io"
	"os"
	"sort"
	"strings"
	"sync"
	"time"

	jsonrpc "github.com/filecoin-project/go-jsonrpc"

	"verifharness/vnet"
	"verifharness/vsched"
)

// CancelSrv records the context each handler sees.
type CancelSrv struct {
	s    *vsched.Sched
	mu   sync.Mutex
	ctxs map[string]context.Context
	retd map[string]bool
	runs map[string]int
	// batch probes: the context state each element's handler saw
	probe map[string]string
}

// Probe reports what its context looks like while it runs (HTTP batch elements must not
// see each other's cancellation).
func (h *CancelSrv) Probe(ctx context.Context, name string) (string, error) {
	e1 := ctx.Err()
	h.s.Yield("probe-" + name)
	e2 := ctx.Err()
	h.mu.Lock()
	h.probe[name] = fmt.Sprintf("%v/%v", e1, e2)
	h.mu.Unlock()
	return name, nil
}

func (h *CancelSrv) rec(name string, ctx context.Context) {
	h.mu.Lock()
	h.ctxs[name] = ctx
	h.mu.Unlock()
}

func (h *CancelSrv) Hold(ctx context.Context, name string) (string, error) {
	h.mu.Lock()
	h.runs[name]++
	h.mu.Unlock()
	h.rec(name, ctx)
	h.s.Env("release-" + name)
	h.mu.Lock()
	h.retd[name] = true
	h.mu.Unlock()
	return name, nil
}

// HoldNote is Hold for notifications.
func (h *CancelSrv) HoldNote(ctx context.Context, name string) error {
	_, err := h.Hold(ctx, name)
	return err
}

func (h *CancelSrv) Sub(ctx context.Context, name string) (<-chan int, error) {
	h.rec(name, ctx)
	out := make(chan int)
	h.s.Go("prod-"+name, func() {
		defer close(out)
		select {
		case out <- 1:
		case <-ctx.Done():
			return
		}
		<-ctx.Done()
	})
	return out, nil
}

type CancelCli struct {
	HoldNote func(ctx context.Context, name string) error `notify:"true"`
	Hold     func(ctx context.Context, name string) (string, error)
	Sub      func(ctx context.Context, name string) (<-chan int, error)
	// SubA reaches Sub through a server-side alias
	SubA func(ctx context.Context, name string) (<-chan int, error) `rpc_method:"alias.sub"`
}

// S-CANCEL (DESIGN §3 C06).
func init() {
	Register(&Scenario{
		Name:        "cancel",
		OptsToo:     true,
		LazyDescToo: true,
		LazyToo:     true,
		DescToo:     true,
		Property:    "C06",
		Cfg:         vsched.Config{Horizon: 10 * time.Second},
		Params: func(tier string) []Param {
			var ps []Param
			add := func(set string, ws, bound int) {
				ps = append(ps, Param{Name: fmt.Sprintf("%s-ws%d", set, ws), Bound: bound, V: map[string]int{"ws": ws}, S: map[string]string{"set": set}})
			}
			if os.Getenv("VPROP") == "C04" {
				b := 1
				if tier == "thorough" {
					b = 2
				}
				add("X", 1, b)
				return ps
			}
			if os.Getenv("VPROP") == "C02" {
				// C02 only needs "a call cancelled while in flight still gets its own response"
				add("X", 1, 1)
				if tier == "thorough" {
					add("XY", 1, 1)
				}
				return ps
			}
			// N: a notification whose handler is still running when the cancels are sent; M: a call
			// made by a foreign client (raw frames, a meta object without a span context)
			ps = append(ps, Param{Name: "X-ws1-note", Bound: 1, V: map[string]int{"ws": 1, "note": 1}, S: map[string]string{"set": "X"}})
			ps = append(ps, Param{Name: "Z-ws1-note", Bound: 1, V: map[string]int{"ws": 1, "note": 1}, S: map[string]string{"set": "Z"}})
			ps = append(ps, Param{Name: "M-ws1-rawmeta", Bound: 1, V: map[string]int{"ws": 1, "rawmeta": 1}, S: map[string]string{"set": "M"}})
			if tier == "quick" {
				add("X", 1, 1)
				add("Z", 1, 1)
				add("Y", 1, 1)
				add("XZ", 1, 1)
				add("X", 0, 1)
				return ps
			}
			for _, set := range []string{"X", "Y", "Z", "XY", "XZ", "YZ", "XYZ"} {
				b := 2
				if len(set) == 1 {
					b = 3
				}
				add(set, 1, b)
			}
			add("X", 0, 2)
			add("XY", 0, 2)
			return ps
		},
		Body: cancelBody,
	})
}

func cancelBody(s *vsched.Sched, p Param) {
	set := p.Str("set")
	ws := p.I("ws") == 1
	w := NewWorld(s, jsonrpc.WithServerPingInterval(0))
	srv := &CancelSrv{s: s, ctxs: map[string]context.Context{}, retd: map[string]bool{}, runs: map[string]int{}, probe: map[string]string{}}
	w.RPC.Register("T", srv)
	w.RPC.AliasMethod("alias.sub", "T.Sub")
	w.Serve()
	var cli, cli2 CancelCli
	var err error
	if ws {
		_, err = w.WS("T", &cli, jsonrpc.WithPingInterval(0), jsonrpc.WithTimeout(0), jsonrpc.WithNoReconnect())
		if err == nil {
			_, err = w.WS("T", &cli2, jsonrpc.WithPingInterval(0), jsonrpc.WithTimeout(0), jsonrpc.WithNoReconnect())
		}
	} else {
		_, err = w.HTTPClient("T", &cli)
		if err == nil {
			_, err = w.HTTPClient("T", &cli2)
		}
	}
	if err != nil {
		s.Violate("HARNESS: setup: %v", err)
		return
	}
	obs := NewObs()
	names := []string{"X", "Y", "V"}
	if ws {
		names = []string{"X", "Y", "Z", "V", "W"} // W: a subscription through an alias, never cancelled
	}
	if p.I("rawmeta") == 1 {
		names = append(names, "M")
	}
	ctxs := map[string]context.Context{}
	cancels := map[string]context.CancelFunc{}
	for _, n := range names {
		ctxs[n], cancels[n] = context.WithCancel(context.Background())
	}
	var mu sync.Mutex
	cancelled := map[string]bool{} // caller cancelled (fired)
	returnedCall := map[string]bool{}
	released := false
	inSet := func(n string) bool { return strings.Contains(set, n) }
	s.Teardown = func() {
		for _, c := range cancels {
			c()
		}
		w.Teardown()
	}
	// "no handler context is cancelled while its call is in flight unless the caller cancelled":
	// sampled after every transition.
	s.OnStep = func() {
		srv.mu.Lock()
		defer srv.mu.Unlock()
		mu.Lock()
		defer mu.Unlock()
		for n, hc := range srv.ctxs {
			if cancelled[n] || srv.retd[n] || returnedCall[n] && n != "Z" && n != "W" {
				continue
			}
			if hc.Err() != nil {
				s.Violate("C06: the handler context of call %s was cancelled although its caller did not cancel (cancelled so far: %v)", n, keys(cancelled))
			}
		}
	}
	s.EnvEnabled = func(name string) bool {
		if strings.HasPrefix(name, "release-") {
			return released
		}
		if name == "mcall-sent" {
			_, ok := obs.Get("ret-M")
			return ok
		}
		return true
	}
	s.OnQuiesce = func() bool {
		if released {
			return false
		}
		// every cancel actor has fired by now (they are the lowest-priority actors and nothing
		// else is enabled). Evaluate, then let the parked handlers go.
		mu.Lock()
		fired := len(cancelled)
		mu.Unlock()
		if fired < len(set) {
			return false
		}
		srv.mu.Lock()
		for _, n := range names {
			hc := srv.ctxs[n]
			if hc == nil {
				continue
			}
			if inSet(n) && hc.Err() == nil {
				s.Violate("C06: call %s was cancelled by its caller while in flight, but its handler's context is still live at quiescence", n)
			}
			obs.Set("hctx-"+n, "%v", hc.Err() != nil)
		}
		srv.mu.Unlock()
		released = true
		return true
	}
	s.Finish = func() {
		if !released {
			s.Violate("HARNESS: cancel events did not all fire")
		}
		if ws {
			// wire: each cancel frame carries exactly the id of a cancelled member
			lk := w.Net.Link(0)
			reqs, _ := WireFrames(lk, vnet.C2S)
			idOf := map[string]string{}
			var cancelIDs []string
			for _, f := range reqs {
				if f.Bad {
					s.Violate("C14: malformed frame on the wire: %q", f.Raw)
					continue
				}
				if f.Method == "T.Hold" || f.Method == "T.Sub" || f.Method == "alias.sub" {
					var ps []string
					json.Unmarshal(f.Params, &ps)
					if len(ps) == 1 {
						idOf[string(f.ID)] = ps[0]
					}
				}
				if f.Method == "xrpc.cancel" {
					var ps []json.RawMessage
					json.Unmarshal(f.Params, &ps)
					if len(ps) != 1 {
						s.Violate("C06: malformed cancel frame %q", f.Raw)
						continue
					}
					cancelIDs = append(cancelIDs, string(ps[0]))
				}
			}
			for _, id := range cancelIDs {
				n, ok := idOf[id]
				if !ok || !inSet(n) {
					s.Violate("C06: cancel frame on the wire for id %s (call %q), which the caller did not cancel (set %s)", id, n, set)
				}
			}
			obs.Set("cancel-frames", "%d", len(cancelIDs))
			// second connection: no cancel frames at all
			if lk2 := w.Net.Link(1); lk2 != nil {
				r2, _ := WireFrames(lk2, vnet.C2S)
				for _, f := range r2 {
					if f.Method == "xrpc.cancel" {
						s.Violate("C06: cancel frame on the other client's connection: %q", f.Raw)
					}
				}
			}
		}
		for _, n := range names {
			if v, ok := obs.Get("ret-" + n); ok && n != "Z" && n != "W" {
				// a result or a handler-level error (application code >= 1) means the handler ran
				srv.mu.Lock()
				runs := srv.runs[n]
				srv.mu.Unlock()
				if (strings.HasSuffix(v, "/<nil>") || strings.Contains(v, "JSONRPCError(1)")) && runs != 1 {
					s.Violate("C04: call %s was answered with %s although its handler executed %d times", n, v, runs)
				}
				if runs > 1 {
					s.Violate("C04: the handler of call %s executed %d times", n, runs)
				}
			}
		}
		for _, n := range names {
			if v, ok := obs.Get("ret-" + n); !ok {
				s.Violate("C06: call %s never returned; alive: %s", n, strings.Join(s.Alive(), " "))
			} else if !inSet(n) && n != "Z" && n != "W" && v != n+"/<nil>" {
				s.Violate("C06: call %s, which was not cancelled, returned %s", n, v)
			} else if ws && inSet(n) && n != "Z" && v != n+"/<nil>" {
				// over WebSocket a cancelled call keeps waiting for its response; the handler here
				// answers with the call's own name once released
				s.Violate("C02: call %s (cancelled while in flight) did not return the response the server produced for it: %s", n, v)
			}
		}
		s.SetObs(obs.String())
	}
	s.Begin()
	if p.I("note") == 1 {
		s.Go("call-0N", func() { cli.HoldNote(context.Background(), "N") })
	}
	for _, n := range names {
		n := n
		c := &cli
		if n == "V" {
			c = &cli2
		}
		if n == "M" {
			s.Go("call-M", func() {
				w.Net.Link(0).Inject(vnet.C2S, vnet.TextFrame([]byte(`{"jsonrpc":"2.0","id":"raw-1","method":"T.Hold","params":["M"],"meta":{"traceparent":"00-0af7651916cd43dd8448eb211c80319c-b7ad6b7169203331-01"}}`), true))
				obs.Set("ret-M", "M/<nil>") // the answer goes to a peer that is not a library client
			})
			continue
		}
		s.Go("call-"+n, func() {
			if n == "Z" || n == "W" {
				sub := c.Sub
				if n == "W" {
					sub = c.SubA
				}
				ch, err := sub(ctxs[n], n)
				obs.Set("ret-"+n, "%v/%s", ch != nil, errClass(err))
				mu.Lock()
				returnedCall[n] = true
				mu.Unlock()
				if err == nil && ch != nil {
					for range ch {
					}
				}
				return
			}
			v, err := c.Hold(ctxs[n], n)
			mu.Lock()
			returnedCall[n] = true
			mu.Unlock()
			obs.Set("ret-"+n, "%s/%s", v, errClass(err))
		})
	}
	for _, n := range names {
		if !inSet(n) {
			continue
		}
		n := n
		s.Go("zcancel-"+n, func() {
			if n == "M" {
				s.Env("mcall-sent") // a peer cancels a call only after it has sent it
			}
			mu.Lock()
			cancelled[n] = true
			mu.Unlock()
			if n == "M" {
				w.Net.Link(0).Inject(vnet.C2S, vnet.TextFrame([]byte(`{"jsonrpc":"2.0","method":"xrpc.cancel","params":["raw-1"]}`), true))
				return
			}
			cancels[n]()
		})
	}
}

func keys(m map[string]bool) []string {
	var k []string
	for x := range m {
		k = append(k, x)
	}
	sort.Strings(k)
	return k
}

// S-BATCHCTX: the elements of one HTTP batch run one after the other on the request's
// context; none of them may see a cancelled context just because an earlier element finished.
func init() {
	Register(&Scenario{
		Name:     "batchctx",
		Property: "C06",
		Cfg:      vsched.Config{Horizon: 5 * time.Second},
		Params: func(tier string) []Param {
			return []Param{{Name: "http-batch3", Bound: 1}, {Name: "handle-request-batch3", Bound: 0, V: map[string]int{"direct": 1}}}
		},
		Body: func(s *vsched.Sched, p Param) {
			w := NewWorld(s)
			srv := &CancelSrv{s: s, ctxs: map[string]context.Context{}, retd: map[string]bool{}, runs: map[string]int{}, probe: map[string]string{}}
			w.RPC.Register("T", srv)
			w.Serve()
			obs := NewObs()
			s.Teardown = w.Teardown
			s.Finish = func() {
				srv.mu.Lock()
				defer srv.mu.Unlock()
				for _, n := range []string{"a", "b", "c"} {
					if got := srv.probe[n]; got != "<nil>/<nil>" {
						s.Violate("C06: element %q of an HTTP batch saw its handler context as %s although nobody cancelled (want <nil>/<nil>)", n, got)
					}
				}
				if v, _ := obs.Get("reply"); !strings.Contains(v, `"result":"c"`) {
					s.Violate("C06: batch reply incomplete: %s", v)
				}
				s.SetObs(obs.String())
			}
			s.Begin()
			s.Go("poster", func() {
				body := `[{"jsonrpc":"2.0","id":1,"method":"T.Probe","params":["a"]},{"jsonrpc":"2.0","id":2,"method":"T.Probe","params":["b"]},{"jsonrpc":"2.0","id":3,"method":"T.Probe","params":["c"]}]`
				if p.I("direct") == 1 {
					var buf bytes.Buffer
					w.RPC.HandleRequest(context.Background(), strings.NewReader(body), &buf)
					obs.Set("reply", "%s", buf.String())
					return
				}
				resp, err := w.HC.Post("http://"+Addr+"/rpc", "application/json", strings.NewReader(body))
				if err != nil {
					obs.Set("reply", "post failed: %v", err)
					return
				}
				defer resp.Body.Close()
				raw, _ := io.ReadAll(resp.Body)
				obs.Set("reply", "%s", raw)
			})
		},
	})
}

// LongSrv: a method that runs for a given (virtual) duration and reports what became of its context.
type LongSrv struct {
	mu  sync.Mutex
	end map[int]string
}

func (h *LongSrv) Long(ctx context.Context, tok int, ms int) (int, error) {
	select {
	case <-time.After(time.Duration(ms) * time.Millisecond):
	case <-ctx.Done():
	}
	h.mu.Lock()
	h.end[tok] = fmt.Sprint(ctx.Err())
	h.mu.Unlock()
	return tok, nil
}

type LongCli struct {
	Long func(ctx context.Context, tok int, ms int) (int, error)
}

// S-LONGCALL (C06, last clause): calls of any duration on a healthy connection, made through a
// client with the library's DEFAULT settings (default HTTP client / default WebSocket options),
// whose caller never cancels: the handler's context stays live until the handler returns and
// the caller gets the result. Durations are virtual time, so an hour costs nothing.
func init() {
	Register(&Scenario{
		Name:     "longcall",
		Property: "C06",
		Cfg:      vsched.Config{Horizon: 3 * time.Hour},
		Params: func(tier string) []Param {
			var ps []Param
			durs := []int{1000, 12000, 95000}
			if tier == "thorough" {
				durs = []int{1000, 5000, 12000, 31000, 61000, 95000, 3600000}
			}
			for _, tr := range []string{"http", "ws"} {
				for _, d := range durs {
					ps = append(ps, Param{Name: fmt.Sprintf("%s-default-%dms", tr, d), Bound: 0, V: map[string]int{"ms": d}, S: map[string]string{"tr": tr}})
				}
			}
			return ps
		},
		Body: func(s *vsched.Sched, p Param) {
			w := NewWorld(s) // default server options too
			srv := &LongSrv{end: map[int]string{}}
			w.RPC.Register("T", srv)
			w.Serve()
			var cli LongCli
			var err error
			if p.Str("tr") == "http" {
				_, err = w.DefaultHTTPClient("T", &cli)
			} else {
				_, err = w.WS("T", &cli)
			}
			if err != nil {
				s.Violate("HARNESS: setup: %v", err)
				return
			}
			obs := NewObs()
			s.Teardown = w.Teardown
			s.OnQuiesce = func() bool {
				if _, ok := obs.Get("ret-2"); ok {
					s.Stop()
					return true
				}
				return false
			}
			s.Finish = func() {
				for _, tok := range []int{1, 2} {
					v, ok := obs.Get(fmt.Sprintf("ret-%d", tok))
					if !ok {
						s.Violate("C06: call %d (%d ms, %s, default options) never returned; alive: %s", tok, p.I("ms"), p.Str("tr"), strings.Join(s.Alive(), " "))
						continue
					}
					srv.mu.Lock()
					end := srv.end[tok]
					srv.mu.Unlock()
					if end != "<nil>" {
						s.Violate("C06: the handler context of call %d was cancelled (%s) after running %d ms on a healthy %s connection although the caller never cancelled; the caller got %s", tok, end, p.I("ms"), p.Str("tr"), v)
					}
					if v != fmt.Sprintf("%d/<nil>", tok) {
						s.Violate("C02: call %d (%d ms, %s, default options) returned %s instead of its result", tok, p.I("ms"), p.Str("tr"), v)
					}
				}
				s.SetObs(obs.String())
			}
			s.Begin()
			s.Go("caller", func() {
				v, err := cli.Long(context.Background(), 1, p.I("ms"))
				obs.Set("ret-1", "%d/%s", v, errClass(err))
				// a second long call on the (reused) connection
				v, err = cli.Long(context.Background(), 2, p.I("ms"))
				obs.Set("ret-2", "%d/%s", v, errClass(err))
			})
		},
	})
}
