// Package scen holds the scenarios (drivers) and oracles, one file per property group.
package scen

import (
	"context"
	"encoding/json"
	"fmt"
	"net"
	"net/http"
	"reflect"
	"sort"
	"strings"
	"sync"
	"sync/atomic"
	"time"
	"unsafe"

	jsonrpc "github.com/filecoin-project/go-jsonrpc"
	"github.com/gorilla/websocket"

	"verifharness/vnet"
	"verifharness/vsched"
)

// Scenario is a closed driver over a finite parameter set.
type Scenario struct {
	Name     string
	Property string
	Cfg      vsched.Config
	// Params lists the parameter tuples for a tier ("quick" or "thorough"), each with the
	// deviation bound to explore it to.
	Params func(tier string) []Param
	Body   func(s *vsched.Sched, p Param)
	// DescToo: every tuple with a bound >= 1 is explored a second time around the second base
	// schedule (descending goroutine ids, vsched.Config.Desc).
	DescToo bool
	// LazyToo: likewise for the third base schedule (spawned goroutines start late, vsched.Config.LazyStart)
	LazyToo bool
	// LazyDescToo: and for the combination (lazy start + descending ids)
	LazyDescToo bool
	// OptsToo: likewise once more with every behaviour-neutral library option switched on (AllOpts)
	OptsToo bool
}

// AllParams returns the tuples of a tier including the derived "-desc" variants.
func (sc *Scenario) AllParams(tier string) []Param {
	ps := sc.Params(tier)
	if !sc.DescToo && !sc.LazyToo && !sc.LazyDescToo && !sc.OptsToo {
		return ps
	}
	var out []Param
	variant := func(p Param, key, suffix string) Param {
		q := p
		q.Name = p.Name + suffix
		if q.Bound >= 2 {
			q.Bound-- // the additional base schedules are explored one level less deep
		}
		q.V = map[string]int{key: 1}
		for k, v := range p.V {
			q.V[k] = v
		}
		return q
	}
	for _, p := range ps {
		out = append(out, p)
		if p.Bound >= 1 && p.V["desc"] == 0 && p.V["lazy"] == 0 {
			if sc.DescToo {
				out = append(out, variant(p, "desc", "-desc"))
			}
			if sc.LazyToo {
				out = append(out, variant(p, "lazy", "-lazy"))
			}
			if sc.LazyDescToo {
				q := variant(p, "lazy", "-lazydesc")
				q.V["desc"] = 1
				out = append(out, q)
			}
		}
		if sc.OptsToo && p.V["desc"] == 0 && p.V["lazy"] == 0 && p.V["opts"] == 0 {
			out = append(out, variant(p, "opts", "-opts"))
		}
	}
	return out
}

// Param is one parameter tuple.
type Param struct {
	Name  string
	Bound int
	V     map[string]int
	S     map[string]string
}

func (p Param) I(k string) int      { return p.V[k] }
func (p Param) Str(k string) string { return p.S[k] }

var Registry = map[string]*Scenario{}

func Register(sc *Scenario) { Registry[sc.Name] = sc }

// World is the closed system of one execution: one RPC server behind an http.Server on an
// in-memory network, plus helpers to create clients on it.
type World struct {
	S      *vsched.Sched
	Net    *vnet.Net
	RPC    *jsonrpc.RPCServer
	HTTP   *http.Server
	Ctx    context.Context // clients
	Cancel context.CancelFunc
	// SrvCtx is the base context of the http.Server (and so of every server-side connection)
	SrvCtx    context.Context
	SrvCancel context.CancelFunc
	HC        *http.Client
	mu        sync.Mutex
	closers   []func()
	connSeq   int
	Mux       *http.ServeMux
	// YieldOnWrite makes every vnet write a schedule point.
	YieldOnWrite bool
	// YieldOnDial makes every dial a schedule point.
	YieldOnDial bool
	restoreDial func()
}

const Addr = "srv:1"

var (
	defaultDialOnce sync.Once
	defaultDialNet  atomic.Pointer[vnet.Net]
)

// NewWorld builds the server side. It must be called on a scheduler-registered goroutine.
// AllOpts (set per execution from the tuple's "opts" flag, see Scenario.OptsToo) switches on every
// library option that should not change behaviour: a tracer, an explicit request size limit, a
// server error table holding only the built-in entry, a decoder / encoder for a parameter type
// nobody uses. A change that hides behind such an option is then exercised by the same drivers.
var AllOpts atomic.Bool

type unusedParamType struct{ X int }

func benignServerOpts() []jsonrpc.ServerOption {
	return []jsonrpc.ServerOption{
		jsonrpc.WithTracer(func(method string, params []reflect.Value, results []reflect.Value, err error) {}),
		jsonrpc.WithMaxRequestSize(16 << 20),
		jsonrpc.WithServerErrors(jsonrpc.NewErrors()),
		jsonrpc.WithParamDecoder(new(unusedParamType), func(ctx context.Context, b []byte) (reflect.Value, error) {
			var v unusedParamType
			err := json.Unmarshal(b, &v)
			return reflect.ValueOf(v), err
		}),
	}
}

func benignClientOpts() []jsonrpc.Option {
	return []jsonrpc.Option{
		jsonrpc.WithParamEncoder(new(unusedParamType), func(v reflect.Value) (reflect.Value, error) { return v, nil }),
	}
}

func NewWorld(s *vsched.Sched, opts ...jsonrpc.ServerOption) *World {
	if AllOpts.Load() {
		opts = append(benignServerOpts(), opts...) // the scenario's own options win
	}
	w := &World{S: s}
	w.Ctx, w.Cancel = context.WithCancel(context.Background())
	w.SrvCtx, w.SrvCancel = context.WithCancel(context.Background())
	w.Net = vnet.New(vnet.Hooks{
		Now: s.Now,
		BeforeDial: func(a string) {
			if w.YieldOnDial && !s.Draining() {
				s.Yield("dial")
			}
		},
		BeforeWrite: func(l *vnet.Link, d vnet.Dir, p []byte) {
			if w.YieldOnWrite && !s.Draining() {
				s.Yield(fmt.Sprintf("write-%d-%s", l.Ord, d))
			}
		},
	})
	vnet.WriterInfo = func() (string, []uintptr) {
		// Locks held by ANY goroutine at the time of the write: the library hands its write lock
		// over between goroutines (lazyWriter's helper goroutine holds writeLk while the handler
		// goroutine writes), so ownership by the writing goroutine itself would be too strict.
		h := s.AllHeld()
		out := make([]uintptr, len(h))
		for i, p := range h {
			out[i] = uintptr(unsafe.Pointer(p))
		}
		return s.CurID(), out
	}
	websocket.DefaultDialer = &websocket.Dialer{NetDialContext: w.Net.DialContext}
	tr := &http.Transport{DialContext: w.Net.DialContext, DisableCompression: true}
	w.HC = &http.Client{Transport: tr}
	http.DefaultClient = w.HC
	w.RPC = jsonrpc.NewServer(opts...)
	w.Mux = http.NewServeMux()
	w.Mux.Handle("/rpc", w.RPC)
	return w
}

// Serve starts the http.Server.
func (w *World) Serve() {
	ln := w.Net.Listen(Addr)
	w.HTTP = &http.Server{
		Handler: http.HandlerFunc(func(rw http.ResponseWriter, r *http.Request) {
			w.S.Adopt("srv-" + r.RemoteAddr)
			defer w.S.Release()
			w.Mux.ServeHTTP(rw, r)
		}),
		BaseContext: func(net.Listener) context.Context { return w.SrvCtx },
	}
	go func() { _ = w.HTTP.Serve(ln) }()
}

func (w *World) nextConnSeq() string {
	w.mu.Lock()
	defer w.mu.Unlock()
	w.connSeq++
	return fmt.Sprint(w.connSeq)
}

// WS creates a WebSocket client.
func (w *World) WS(ns string, out interface{}, opts ...jsonrpc.Option) (jsonrpc.ClientCloser, error) {
	if AllOpts.Load() {
		opts = append(benignClientOpts(), opts...)
	}
	cl, err := jsonrpc.NewMergeClient(w.Ctx, "ws://"+Addr+"/rpc", ns, []interface{}{out}, nil, opts...)
	if err == nil {
		w.mu.Lock()
		w.closers = append(w.closers, cl)
		w.mu.Unlock()
	}
	return cl, err
}

// HTTPClient creates an HTTP client.
func (w *World) HTTPClient(ns string, out interface{}, opts ...jsonrpc.Option) (jsonrpc.ClientCloser, error) {
	if AllOpts.Load() {
		opts = append(benignClientOpts(), opts...)
	}
	opts = append([]jsonrpc.Option{jsonrpc.WithHTTPClient(w.HC)}, opts...)
	return jsonrpc.NewMergeClient(w.Ctx, "http://"+Addr+"/rpc", ns, []interface{}{out}, nil, opts...)
}

// DefaultHTTPClient creates an HTTP client that uses the library's own default http.Client
// (no WithHTTPClient option), dialling into the in-memory network through a build-tagged hook.
func (w *World) DefaultHTTPClient(ns string, out interface{}, opts ...jsonrpc.Option) (jsonrpc.ClientCloser, error) {
	// The default client is process-wide: its dial function is replaced once and for all by one
	// that looks up the network of the current execution (and fails when there is none, e.g. a
	// dial queued by the transport's connection limit that is only served during teardown).
	defaultDialOnce.Do(func() {
		jsonrpc.VerifSetDefaultDial(func(ctx context.Context, network, addr string) (net.Conn, error) {
			n := defaultDialNet.Load()
			if n == nil {
				return nil, fmt.Errorf("verif: no in-memory network is current")
			}
			return n.DialContext(ctx, network, addr)
		})
	})
	defaultDialNet.Store(w.Net)
	w.restoreDial = func() {
		defaultDialNet.Store(nil)
		jsonrpc.VerifCloseDefaultIdle()
	}
	return jsonrpc.NewMergeClient(w.Ctx, "http://"+Addr+"/rpc", ns, []interface{}{out}, nil, opts...)
}

// Teardown releases everything so that the goroutines of the execution can finish.
func (w *World) Teardown() {
	if w.restoreDial != nil {
		w.restoreDial()
		w.restoreDial = nil
	}
	w.Cancel()
	w.SrvCancel()
	w.Net.CloseAll()
	if w.HTTP != nil {
		w.HTTP.Close()
	}
	if tr, ok := w.HC.Transport.(*http.Transport); ok {
		tr.CloseIdleConnections()
	}
}

// ---- wire helpers ----

// Frame is a decoded JSON-RPC frame from the wire log.
type Frame struct {
	ID     json.RawMessage   `json:"id"`
	Method string            `json:"method"`
	Params json.RawMessage   `json:"params"`
	Result json.RawMessage   `json:"result"`
	Error  json.RawMessage   `json:"error"`
	Meta   map[string]string `json:"meta"`
	Raw    string            `json:"-"`
	Bad    bool              `json:"-"`
}

// WireFrames parses direction d of link lk into JSON-RPC frames.
func WireFrames(lk *vnet.Link, d vnet.Dir) ([]Frame, *vnet.WSStream) {
	st := vnet.ParseWS(lk.Wire(d))
	var out []Frame
	for _, m := range st.Data() {
		var f Frame
		f.Raw = string(m.Payload)
		dec := json.NewDecoder(strings.NewReader(f.Raw))
		if err := dec.Decode(&f); err != nil {
			f.Bad = true
		} else if dec.More() {
			f.Bad = true
		}
		out = append(out, f)
	}
	return out, st
}

// Obs builds canonical observation strings.
type Obs struct {
	mu sync.Mutex
	kv map[string]string
}

func NewObs() *Obs { return &Obs{kv: map[string]string{}} }

func (o *Obs) Set(k, format string, a ...interface{}) {
	o.mu.Lock()
	o.kv[k] = fmt.Sprintf(format, a...)
	o.mu.Unlock()
}

func (o *Obs) Get(k string) (string, bool) {
	o.mu.Lock()
	defer o.mu.Unlock()
	v, ok := o.kv[k]
	return v, ok
}

func (o *Obs) String() string {
	o.mu.Lock()
	defer o.mu.Unlock()
	ks := make([]string, 0, len(o.kv))
	for k := range o.kv {
		ks = append(ks, k)
	}
	sort.Strings(ks)
	var sb strings.Builder
	for _, k := range ks {
		fmt.Fprintf(&sb, "%s=%s ", k, o.kv[k])
	}
	return sb.String()
}

var _ = time.Second

func (o *Obs) Len() int {
	o.mu.Lock()
	defer o.mu.Unlock()
	return len(o.kv)
}
