package scen

import (
	"context"
	"errors"
	"fmt"
	"math"
	"strings"
	"time"

	jsonrpc "github.com/filecoin-project/go-jsonrpc"

	"verifharness/vnet"
	"verifharness/vsched"
)

// S-RECON (DESIGN §3 C05): outage shapes x options; U untagged and R retry-tagged in flight
// at the fault, R' retry-tagged issued during the outage, probe P after healing.
func init() {
	Register(&Scenario{
		Name:     "recon",
		DescToo:  true,
		Property: "C05",
		Cfg:      vsched.Config{Horizon: 8 * time.Second},
		Params: func(tier string) []Param {
			var ps []Param
			add := func(kind, pos string, k int, second string, rc, em, bo, jit, bound int) {
				ps = append(ps, Param{Name: fmt.Sprintf("%s-%s-k%d-2nd=%s-rc%d-em%d-bo%d-j%d", kind, pos, k, second, rc, em, bo, jit), Bound: bound,
					V: map[string]int{"k": k, "rc": rc, "em": em, "bo": bo, "jit": jit}, S: map[string]string{"kind": kind, "pos": pos, "second": second}})
			}
			if tier == "quick" {
				for _, kind := range []string{"fin", "rst"} {
					for _, pos := range []string{"idle", "mid"} {
						for _, k := range []int{0, 1} {
							add(kind, pos, k, "none", 1, 1, 0, 0, 1)
						}
					}
				}
				// lean variant (no calls in flight at the fault; one untagged call issued while the
				// client hands over to the new connection), one level deeper
				ps = append(ps, Param{Name: "fin-idle-lean-handover", Bound: 2, V: map[string]int{"rc": 1, "em": 1, "lean": 1}, S: map[string]string{"kind": "fin", "pos": "idle", "second": "none"}})
				add("fin", "idle", 3, "none", 1, 0, 0, 1, 0)
				add("rst", "idle", 1, "again", 1, 1, 1, 0, 1)
				add("fin", "mid", 0, "again", 1, 0, 0, 0, 1)
				add("fin", "idle", 0, "none", 0, 1, 0, 0, 1)
				add("rst", "mid", 0, "none", 0, 0, 0, 0, 1)
				return ps
			}
			for _, kind := range []string{"fin", "rst"} {
				for _, pos := range []string{"idle", "mid"} {
					for _, k := range []int{0, 1, 3} {
						for _, second := range []string{"none", "again"} {
							for _, em := range []int{0, 1} {
								for _, bo := range []int{0, 1} {
									for _, jit := range []int{0, 1} {
										b := 1
										if k <= 1 && second == "none" && bo == 0 && jit == 0 {
											b = 2
										}
										add(kind, pos, k, second, 1, em, bo, jit, b)
									}
								}
							}
						}
					}
					add(kind, pos, 0, "none", 0, 1, 0, 0, 2)
					add(kind, pos, 0, "none", 0, 0, 0, 0, 2)
				}
				for _, em := range []int{0, 1} {
					ps = append(ps, Param{Name: fmt.Sprintf("%s-idle-lean-handover-em%d", kind, em), Bound: 3, V: map[string]int{"rc": 1, "em": em, "lean": 1}, S: map[string]string{"kind": kind, "pos": "idle", "second": "none"}})
				}
			}
			return ps
		},
		Body: reconBody,
	})
}

func reconBody(s *vsched.Sched, p Param) {
	kind := faultKinds[p.Str("kind")]
	minD, maxD := 10*time.Millisecond, 40*time.Millisecond
	if p.I("bo") == 1 {
		minD, maxD = 50*time.Millisecond, 50*time.Millisecond
	}
	if p.I("jit") == 1 {
		s.SetRand(0.999)
	}
	w := NewWorld(s, jsonrpc.WithServerPingInterval(0))
	srv := &FaultSrv{s: s, Calls: map[int]int{}}
	w.RPC.Register("T", srv)
	w.Serve()
	opts := []jsonrpc.Option{jsonrpc.WithPingInterval(0), jsonrpc.WithTimeout(0)}
	reconnect := p.I("rc") == 1
	if reconnect {
		opts = append(opts, jsonrpc.WithReconnectBackoff(minD, maxD))
	} else {
		opts = append(opts, jsonrpc.WithNoReconnect())
	}
	mapped := p.I("em") == 1
	if mapped {
		opts = append(opts, jsonrpc.WithErrors(jsonrpc.NewErrors()))
	}
	if p.Str("pos") == "mid" {
		// inside the first server->client frame (U's or R's response; both handlers are released
		// freely in this variant so that a response is written at all)
		w.Net.ArmFrame(0, vnet.FrameCut{Kind: kind, Dir: vnet.S2C, Frame: 0, Where: vnet.MidPayload})
	}
	var cli FaultCli
	closer, err := w.WS("T", &cli, opts...)
	if err != nil {
		s.Violate("HARNESS: setup: %v", err)
		return
	}
	_ = closer
	obs := NewObs()
	has := func(k string) bool { _, ok := obs.Get(k); return ok }
	faulted := func() bool { k, _ := w.Net.Link(0).Fault(); return k != vnet.None }
	okDials := func() int {
		n := 0
		for _, d := range w.Net.Dials() {
			if d.OK {
				n++
			}
		}
		return n
	}
	const tokU, tokR, tokR2, tokP, tokT = 1, 2, 60, 77, 3
	wantOK := 2
	if p.Str("second") == "again" {
		wantOK = 3
	}
	secondArmed, pAllowed := false, false
	s.OnStep = func() {
		if !secondArmed && faulted() {
			secondArmed = true
			if k := p.I("k"); k > 0 {
				w.Net.FailDials(k)
			}
			if p.Str("second") == "again" {
				w.Net.ArmFrame(1, vnet.FrameCut{Kind: kind, Dir: vnet.C2S, Frame: 0, Where: vnet.Before})
			}
		}
	}
	s.EnvEnabled = func(name string) bool {
		switch name {
		case "complete-1", "complete-2": // U's and R's handlers
			return p.Str("pos") == "mid" || faulted()
		case "complete-3": // the trigger call of the mid-frame variant returns at once
			return true
		case "cut-go":
			if p.I("lean") == 1 {
				return true
			}
			return has("iss-U") && has("iss-R") && srv.Count(tokU) > 0 && srv.Count(tokR) > 0
		case "r2-go":
			return faulted() && okDials() == 1
		case "p-go":
			return pAllowed
		case "v-go": // the redial has just succeeded: the client is about to swap the new connection in
			return faulted() && okDials() >= 2
		}
		return true
	}
	s.OnQuiesce = func() bool {
		allBack := has("ret-P")
		for _, k := range []string{"U", "R", "R2", "V"} {
			if has("iss-"+k) && !has("ret-"+k) {
				allBack = false // e.g. a retry-tagged call sleeping on its retry timer
			}
		}
		if allBack {
			s.Stop()
			return true
		}
		if !pAllowed && faulted() && (okDials() >= wantOK || !reconnect) {
			pAllowed = true
			return true
		}
		return false
	}
	s.Teardown = w.Teardown
	s.Finish = func() {
		if !faulted() {
			s.Violate("HARNESS: the fault never struck")
			return
		}
		get := func(k string) string { v, _ := obs.Get(k); return v }
		for _, k := range []string{"U", "R", "R2", "P", "V"} {
			if has("iss-"+k) && !has("ret-"+k) {
				s.Violate("C05: call %s never returned; alive: %s", k, strings.Join(s.Alive(), " "))
			}
		}
		if v := get("ret-V"); has("ret-V") && v != "61/<nil>" && !strings.HasSuffix(v, "/JSONRPCError(-1111111)") && !strings.HasSuffix(v, "/RPCConnectionError") {
			s.Violate("C05: untagged call V issued while the reconnect completes returned %s, want its result or the connection error", v)
		}
		connErr := "JSONRPCError(-1111111)"
		if mapped {
			connErr = "RPCConnectionError"
		}
		if reconnect {
			if !has("iss-P") {
				s.Violate("C05: the client never re-established the link: dial log %v", w.Net.Dials())
			} else if get("ret-P") != "77/<nil>" {
				s.Violate("C05: a new call after the reconnection did not succeed: %s", get("ret-P"))
			}
			for k, tok := range map[string]int{"R": tokR, "R2": tokR2} {
				if has("ret-"+k) && get("ret-"+k) != fmt.Sprintf("%d/<nil>", tok) {
					s.Violate("C05: retry-tagged call %s returned %s instead of a genuine result", k, get("ret-"+k))
				}
			}
			if v := get("ret-U"); has("ret-U") && v != "1/<nil>" && !strings.HasSuffix(v, "/"+connErr) {
				s.Violate("C05: untagged call U in flight at the fault returned %s, want the connection error as %s (error mapping %v)", v, connErr, mapped)
			}
			// backoff: gaps between consecutive redial attempts of one outage
			checkBackoff(s, w.Net.Dials(), minD, maxD)
		} else {
			if n := len(w.Net.Dials()); n != 1 {
				s.Violate("C05: a no-reconnect client redialled: dial log %v", w.Net.Dials())
			}
			for _, k := range []string{"U", "R", "R2", "P"} {
				if has("ret-"+k) && strings.HasSuffix(get("ret-"+k), "/<nil>") && !(k == "U" || k == "R") {
					s.Violate("C05: call %s on a no-reconnect client succeeded after the connection was lost: %s", k, get("ret-"+k))
				}
			}
		}
		obs.Set("dials", "%d", len(w.Net.Dials()))
		s.SetObs(obs.String())
	}
	call := func(name string, tok int, retry bool) {
		obs.Set("iss-"+name, "1")
		var v int
		var err error
		if retry {
			v, err = cli.EchoRetry(context.Background(), tok)
		} else {
			v, err = cli.Echo(context.Background(), tok)
		}
		obs.Set("ret-"+name, "%d/%s", v, errClass(err))
	}
	s.Begin()
	lean := p.I("lean") == 1
	if !lean {
		s.Go("caller-u", func() { call("U", tokU, false) })
		s.Go("caller-r", func() { call("R", tokR, true) })
	}
	if p.Str("pos") == "idle" {
		s.Go("zcut", func() {
			s.Env("cut-go")
			w.Net.Link(0).Sever(kind)
		})
	}
	if reconnect && !lean {
		s.Go("zr2", func() {
			s.Env("r2-go")
			call("R2", tokR2, true)
		})
	}
	if reconnect {
		// an untagged call issued at the moment the redial succeeds (one deviation places it
		// anywhere inside the hand-over to the new connection)
		s.Go("zv", func() {
			s.Env("v-go")
			call("V", 61, false)
		})
	}
	s.Go("zzprobe", func() {
		s.Env("p-go")
		call("P", tokP, false)
	})
	_ = errors.New
	_ = tokT
}

// checkBackoff: consecutive redial attempts that belong to one outage (each failed attempt is
// followed by the next one) are spaced by min(max, min*1.5^n) .. min(max, min*1.5^n + min),
// and never happen at the same instant.
func checkBackoff(s *vsched.Sched, dials []vnet.DialEvent, minD, maxD time.Duration) {
	n := 0
	for i := 1; i < len(dials); i++ {
		prev, cur := dials[i-1], dials[i]
		if i == 1 || prev.OK {
			n = 0 // first redial of an outage: preceded by detection, not by a failed attempt
			continue
		}
		n++
		gap := cur.At - prev.At
		lo := time.Duration(float64(minD) * math.Pow(1.5, float64(n)))
		hi := lo + minD
		if lo > maxD {
			lo = maxD
		}
		if hi > maxD {
			hi = maxD
		}
		if gap <= 0 {
			s.Violate("C05: busy redial loop: attempts %d and %d at the same instant %v (dial log %v)", i-1, i, cur.At, dials)
		} else if gap < lo-time.Microsecond || gap > hi+time.Microsecond {
			s.Violate("C05: redial attempt %d of the outage came %v after the previous one, outside the configured backoff [%v, %v] (min %v, max %v; dial log %v)", n, gap, lo, hi, minD, maxD, dials)
		}
	}
}
