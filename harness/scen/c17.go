package scen

import (
	"context"
	"fmt"
	"strings"
	"sync/atomic"
	"time"

	jsonrpc "github.com/filecoin-project/go-jsonrpc"

	"verifharness/vnet"
	"verifharness/vsched"
)

type KaSrv struct{ s *vsched.Sched }

// Slow returns after d milliseconds of virtual time.
func (h *KaSrv) Slow(ctx context.Context, tok int, ms int) (int, error) {
	time.Sleep(time.Duration(ms) * time.Millisecond)
	return tok, nil
}

// Big returns an n-byte string after ms milliseconds of virtual time.
func (h *KaSrv) Big(ctx context.Context, ms int, n int) (string, error) {
	time.Sleep(time.Duration(ms) * time.Millisecond)
	return strings.Repeat("k", n), nil
}

// Ticks sends n values, one every ms milliseconds.
func (h *KaSrv) Ticks(ctx context.Context, n int, ms int) (<-chan int, error) {
	out := make(chan int)
	h.s.Go("prod", func() {
		defer close(out)
		for j := 0; j < n; j++ {
			time.Sleep(time.Duration(ms) * time.Millisecond)
			select {
			case out <- j:
			case <-ctx.Done():
				return
			}
		}
	})
	return out, nil
}

type KaCli struct {
	Big   func(ctx context.Context, ms int, n int) (string, error)
	Slow  func(ctx context.Context, tok int, ms int) (int, error)
	Ticks func(ctx context.Context, n int, ms int) (<-chan int, error)
}

// S-KEEPALIVE (DESIGN §3 C17), decided entirely in virtual time.
func init() {
	Register(&Scenario{
		Name:     "keepalive",
		Property: "C17",
		Cfg:      vsched.Config{Horizon: 400 * time.Second},
		Params: func(tier string) []Param {
			var ps []Param
			type cfg struct{ pc, tc int } // seconds
			cfgs := []cfg{{1, 3}, {5, 30}}
			if tier == "thorough" {
				cfgs = []cfg{{1, 3}, {2, 5}, {5, 30}}
			}
			tb := 0 // bound of the after-reconnect and silent-peer tuples
			if tier == "thorough" {
				tb = 1
			}
			for _, c := range cfgs {
				for _, sp := range []int{0, 1} { // server pings off / same interval as the client
					shapes := []string{"call-0.1", "call-1.1", "call-7", "idle-7", "ticks"}
					if tier == "thorough" {
						shapes = []string{"call-0.1", "call-0.9", "call-1.1", "call-2.5", "call-7", "idle-7", "ticks"}
					}
					// a large response over a slow but steady link: its transfer takes 2.5x the timeout
					shapes = append(shapes, "slowbig")
					for _, sh := range shapes {
						b := 0
						if c.pc == 1 && (sh == "call-1.1" || sh == "ticks") {
							b = 1
						}
						if tier == "thorough" {
							b = 1
							if c.pc <= 2 {
								b = 2
							}
						}
						ps = append(ps, Param{Name: fmt.Sprintf("healthy-p%d-t%d-sp%d-%s", c.pc, c.tc, sp, sh), Bound: b,
							V: map[string]int{"pc": c.pc, "tc": c.tc, "sp": sp}, S: map[string]string{"shape": sh, "mode": "healthy"}})
					}
					// healthy link *after one reconnect* (the keepalive machinery must be re-armed on
					// the new connection)
					for _, sh := range []string{"call-2.5", "idle-7", "slowbig"} {
						if c.pc > 2 && tier != "thorough" && sh == "idle-7" {
							continue
						}
						ps = append(ps, Param{Name: fmt.Sprintf("healthy2-p%d-t%d-sp%d-%s", c.pc, c.tc, sp, sh), Bound: tb,
							V: map[string]int{"pc": c.pc, "tc": c.tc, "sp": sp, "after_reconnect": 1}, S: map[string]string{"shape": sh, "mode": "healthy"}})
					}
					// "midframe": the peer falls silent in the middle of the frame that carries the response
					ats := []string{"idle", "pending", "busy", "busy-early", "midframe"}
					for _, at := range ats {
						ps = append(ps, Param{Name: fmt.Sprintf("silent-p%d-t%d-sp%d-%s", c.pc, c.tc, sp, at), Bound: tb,
							V: map[string]int{"pc": c.pc, "tc": c.tc, "sp": sp}, S: map[string]string{"shape": at, "mode": "silent"}})
					}
				}
			}
			return ps
		},
		Body: keepaliveBody,
	})
}

func keepaliveBody(s *vsched.Sched, p Param) {
	pc := time.Duration(p.I("pc")) * time.Second
	tc := time.Duration(p.I("tc")) * time.Second
	sp := time.Duration(0)
	if p.I("sp") == 1 {
		sp = pc
	}
	w := NewWorld(s, jsonrpc.WithServerPingInterval(sp))
	srv := &KaSrv{s: s}
	w.RPC.Register("T", srv)
	w.Serve()
	var cli KaCli
	closer, err := w.WS("T", &cli, jsonrpc.WithPingInterval(pc), jsonrpc.WithTimeout(tc),
		jsonrpc.WithReconnectBackoff(10*time.Millisecond, 40*time.Millisecond))
	if err != nil {
		s.Violate("HARNESS: setup: %v", err)
		return
	}
	_ = closer
	obs := NewObs()
	has := func(k string) bool { _, ok := obs.Get(k); return ok }
	subCtx, subCancel := context.WithCancel(context.Background())
	s.Teardown = func() { subCancel(); w.Teardown() }
	mode, shape := p.Str("mode"), p.Str("shape")
	ms := func(f float64) int { return int(f * float64(tc/time.Millisecond)) }
	var bhAt time.Duration
	okDials := func() int {
		n := 0
		for _, d := range w.Net.Dials() {
			if d.OK {
				n++
			}
		}
		return n
	}
	probeAllowed := false
	workAllowed := p.I("after_reconnect") == 0
	var done atomic.Bool
	s.EnvEnabled = func(name string) bool {
		switch name {
		case "bh-go":
			if shape == "busy-early" {
				return has("iss-call") // before the first pong round
			}
			return s.Now() >= 5*pc/2 && (shape == "idle" || has("iss-call"))
		case "work-go":
			return workAllowed
		case "probe-go":
			return probeAllowed
		}
		return true
	}
	s.OnQuiesce = func() bool {
		if !workAllowed && okDials() >= 2 {
			workAllowed = true // the reconnect has completed; from now on the link must stay up
			return true
		}
		// the scenario is over once the workload has finished (healthy) or the probe has
		// returned (silent) and everything has settled; ping loops never go quiescent
		if (mode == "healthy" && done.Load()) || has("probe") {
			s.Stop()
			return true
		}
		if mode == "silent" && !probeAllowed && okDials() >= 2 {
			probeAllowed = true
			return true
		}
		return false
	}
	s.OnStep = func() {
		// healthy: as long as the workload is running nobody may close, reset or redial
		if mode != "healthy" || done.Load() {
			return
		}
		li, maxDials := 0, 1
		if p.I("after_reconnect") == 1 {
			if !workAllowed {
				return
			}
			li, maxDials = 1, 2
		}
		cc, sc := w.Net.Link(li).ClosedEnds()
		if cc || sc || len(w.Net.Dials()) > maxDials {
			s.Violate("C17: the library dropped a healthy connection (client closed=%v, server closed=%v, dials=%d) at %v with ping=%v timeout=%v server-ping=%v during %s",
				cc, sc, len(w.Net.Dials()), s.Now(), pc, tc, sp, shape)
			done.Store(true)
		}
	}
	s.Finish = func() {
		if mode == "healthy" {
			if v, ok := obs.Get("ret"); !ok {
				s.Violate("C17: the workload (%s) did not finish on a healthy connection; alive: %s", shape, strings.Join(s.Alive(), " "))
			} else if !strings.HasSuffix(v, "ok") {
				s.Violate("C17: the workload (%s) failed on a healthy connection: %s", shape, v)
			}
		} else {
			if k, at := w.Net.Link(0).Fault(); k != vnet.Blackhole {
				s.Violate("HARNESS: the blackhole never struck")
			} else if shape == "midframe" {
				bhAt = at
			}
			if shape != "idle" {
				v, ok := obs.Get("ret")
				if !ok {
					s.Violate("C17: the pending call was never failed after the peer fell silent at %v (timeout %v); alive: %s", bhAt, tc, strings.Join(s.Alive(), " "))
				} else {
					var at time.Duration
					var cls string
					fmt.Sscanf(v, "%d %s", &at, &cls)
					if at > bhAt+3*tc {
						s.Violate("C17: the pending call failed only at %v, more than 3x the timeout (%v) after the peer fell silent at %v", at, tc, bhAt)
					}
					if !strings.Contains(cls, "-1111111") && !strings.Contains(cls, "RPCConnectionError") {
						s.Violate("C17: the pending call did not fail with the connection error: %s", v)
					}
				}
			}
			if okDials() < 2 {
				s.Violate("C17: the client did not start reconnecting after the peer fell silent at %v (timeout %v): dial log %v", bhAt, tc, w.Net.Dials())
			} else if d := w.Net.Dials()[1].At; d > bhAt+3*tc {
				s.Violate("C17: the redial happened only at %v, more than 3x the timeout (%v) after the peer fell silent at %v", d, tc, bhAt)
			}
			if v, ok := obs.Get("probe"); !ok || v != "9/<nil>" {
				s.Violate("C05: probe after the reconnect failed: %q (issued=%v)", v, ok)
			}
		}
		s.SetObs(obs.String())
	}
	s.Begin()
	if p.I("after_reconnect") == 1 {
		s.Go("acut", func() { w.Net.Link(0).Sever(vnet.FIN) })
	}
	switch {
	case mode == "silent" && shape == "midframe":
		w.Net.ArmFrame(0, vnet.FrameCut{Kind: vnet.Blackhole, Dir: vnet.S2C, Frame: 0, Where: vnet.MidPayload, DataOnly: true})
		s.Go("caller", func() {
			obs.Set("iss-call", "1")
			_, err := cli.Big(context.Background(), int(5*pc/2/time.Millisecond), 20000)
			obs.Set("ret", "%d %s", s.Now(), errClass(err))
		})
		s.Go("zprobe", func() {
			s.Env("probe-go")
			v, err := cli.Slow(context.Background(), 9, 1)
			obs.Set("probe", "%d/%v", v, err)
		})
	case mode == "silent":
		if shape != "idle" {
			s.Go("caller", func() {
				obs.Set("iss-call", "1")
				_, err := cli.Slow(context.Background(), 1, ms(100))
				obs.Set("ret", "%d %s", s.Now(), errClass(err))
			})
		}
		if strings.HasPrefix(shape, "busy") {
			// an application that keeps polling: a new call more often than the timeout, so the
			// main loop never idles; only the read deadline can notice the silent peer
			s.Go("poller", func() {
				s.Env("bh-go")
				for i := 0; i < 12 && !has("probe"); i++ {
					time.Sleep(tc / 3)
					i := i
					s.Go(fmt.Sprintf("poll-%d", i), func() { cli.Slow(context.Background(), 20+i, 1) })
				}
			})
		}
		s.Go("zbh", func() {
			s.Env("bh-go")
			bhAt = s.Now()
			w.Net.Link(0).Sever(vnet.Blackhole)
		})
		s.Go("zprobe", func() {
			s.Env("probe-go")
			v, err := cli.Slow(context.Background(), 9, 1)
			obs.Set("probe", "%d/%v", v, err)
		})
	case strings.HasPrefix(shape, "call-"):
		var f float64
		fmt.Sscanf(shape, "call-%g", &f)
		s.Go("caller", func() {
			s.Env("work-go")
			v, err := cli.Slow(context.Background(), 1, ms(f))
			done.Store(true)
			if err == nil && v == 1 {
				obs.Set("ret", "ok")
			} else {
				obs.Set("ret", "%d/%v", v, err)
			}
		})
	case shape == "slowbig":
		// a 50 kB response over a slow but steady link: the transfer takes 2.5x the timeout
		s.Go("caller", func() {
			s.Env("work-go")
			li := 0
			if p.I("after_reconnect") == 1 {
				li = 1
			}
			w.Net.Link(li).Throttle(vnet.S2C, 2000, tc/10)
			v, err := cli.Big(context.Background(), 0, 50000)
			done.Store(true)
			if err == nil && len(v) == 50000 {
				obs.Set("ret", "ok")
			} else {
				obs.Set("ret", "len%d/%v at %v", len(v), err, s.Now())
			}
		})
	case shape == "idle-7":
		s.Go("caller", func() {
			s.Env("work-go")
			time.Sleep(7 * tc)
			v, err := cli.Slow(context.Background(), 1, 1)
			done.Store(true)
			if err == nil && v == 1 {
				obs.Set("ret", "ok")
			} else {
				obs.Set("ret", "%d/%v", v, err)
			}
		})
	case shape == "ticks":
		s.Go("caller", func() {
			s.Env("work-go")
			n := 7
			ch, err := cli.Ticks(subCtx, n, ms(0.8))
			if err != nil {
				obs.Set("ret", "sub-err:%v", err)
				return
			}
			got := 0
			for range ch {
				got++
			}
			done.Store(true)
			if got == n {
				obs.Set("ret", "ok")
			} else {
				obs.Set("ret", "got %d of %d values", got, n)
			}
		})
	}
}
