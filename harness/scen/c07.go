package scen

import (
	"context"
	"encoding/json"
	"fmt"
	"math"
	"strings"
	"sync"
	"time"

	jsonrpc "github.com/filecoin-project/go-jsonrpc"

	"verifharness/vnet"
	"verifharness/vsched"
)

// StreamSrv serves subscriptions whose producer is a scheduler actor.
type StreamSrv struct {
	s        *vsched.Sched
	mu       sync.Mutex
	sent     map[int][]int // values whose send on the handler's channel completed, per stream
	prodDone map[int]bool
	hctx     map[int]context.Context
	buffered int
	// syncK > 0: every Sub handler waits until syncK handlers have started (so that they reach
	// the channel registration together), and producers start only when the scenario allows
	syncK   int
	entered int
	// keepGoing: the producer ignores ctx cancellation for one more value
	obeyCtx bool
	// prodGate: the producer of stream id waits for this environment event first
	prodGate map[int]string
}

func (h *StreamSrv) Entered() int {
	h.mu.Lock()
	defer h.mu.Unlock()
	return h.entered
}

func (h *StreamSrv) Sub(ctx context.Context, id int, n int) (<-chan int, error) {
	out := make(chan int, h.buffered)
	h.mu.Lock()
	h.hctx[id] = ctx
	h.entered++
	h.mu.Unlock()
	if h.syncK > 0 {
		h.s.Env("sub-go")
	}
	h.s.Go(fmt.Sprintf("prod-%d", id), func() {
		defer close(out)
		if h.syncK > 0 {
			h.s.Env("prod-go")
		}
		if g := h.prodGate[id]; g != "" {
			h.s.Env(g)
		}
		for j := 0; j < n; j++ {
			v := id*1000 + j
			if h.obeyCtx {
				select {
				case out <- v:
				case <-ctx.Done():
					h.mu.Lock()
					h.prodDone[id] = true
					h.mu.Unlock()
					return
				}
			} else {
				out <- v
			}
			h.mu.Lock()
			h.sent[id] = append(h.sent[id], v)
			h.mu.Unlock()
		}
		h.mu.Lock()
		h.prodDone[id] = true
		h.mu.Unlock()
	})
	return out, nil
}

func (h *StreamSrv) Echo(ctx context.Context, tok int) (int, error) { return tok, nil }

// SubNaN streams floats, one of which (NaN) cannot be encoded as JSON: the library skips it;
// other subscriptions on the connection must not notice.
func (h *StreamSrv) SubNaN(ctx context.Context, id int) (<-chan float64, error) {
	out := make(chan float64)
	h.s.Go(fmt.Sprintf("prodnan-%d", id), func() {
		defer close(out)
		if h.syncK > 0 {
			h.s.Env("prod-go")
		}
		for _, v := range []float64{1.5, math.NaN(), 2.5} {
			select {
			case out <- v:
			case <-ctx.Done():
				return
			}
		}
	})
	return out, nil
}

// Rich is a stream element with optional fields, a map and a slice: decoding one value must not
// be influenced by the values before it, and a delivered value must never change afterwards.
type Rich struct {
	Seq  int               `json:"seq"`
	Note string            `json:"note,omitempty"`
	Tags map[string]string `json:"tags,omitempty"`
	Path []int             `json:"path,omitempty"`
	Opt  *int              `json:"opt,omitempty"`
}

func richValues() []Rich {
	seven := 7
	return []Rich{
		{Seq: 1, Note: "first", Tags: map[string]string{"a": "x", "b": "y"}, Path: []int{9, 2, 3}, Opt: &seven},
		{Seq: 2},
		{Seq: 3, Tags: map[string]string{"c": "z"}},
		{Seq: 4, Path: []int{7}},
	}
}

// anyValues: a stream whose element type is an interface, with nil elements in it.
func anyValues() []interface{} {
	return []interface{}{1, "two", nil, 3.5, nil, []interface{}{"x"}, map[string]interface{}{"k": nil}}
}

func (h *StreamSrv) SubAny(ctx context.Context, id int) (<-chan interface{}, error) {
	out := make(chan interface{})
	h.s.Go(fmt.Sprintf("prodany-%d", id), func() {
		defer close(out)
		if h.syncK > 0 {
			h.s.Env("prod-go")
		}
		for _, v := range anyValues() {
			select {
			case out <- v:
			case <-ctx.Done():
				return
			}
		}
	})
	return out, nil
}

func (h *StreamSrv) SubRich(ctx context.Context, id int) (<-chan Rich, error) {
	out := make(chan Rich)
	h.s.Go(fmt.Sprintf("prodrich-%d", id), func() {
		defer close(out)
		if h.syncK > 0 {
			h.s.Env("prod-go")
		}
		for _, v := range richValues() {
			select {
			case out <- v:
			case <-ctx.Done():
				return
			}
		}
	})
	return out, nil
}

func (h *StreamSrv) Sent(id int) []int {
	h.mu.Lock()
	defer h.mu.Unlock()
	return append([]int(nil), h.sent[id]...)
}

func (h *StreamSrv) Done(id int) bool {
	h.mu.Lock()
	defer h.mu.Unlock()
	return h.prodDone[id]
}

type StreamCli struct {
	SubNaN  func(ctx context.Context, id int) (<-chan float64, error)
	SubRich func(ctx context.Context, id int) (<-chan Rich, error)
	SubAny  func(ctx context.Context, id int) (<-chan interface{}, error)
	Sub     func(ctx context.Context, id int, n int) (<-chan int, error)
	// the same subscription through a client function declared without a context parameter
	SubNC func(id int, n int) (<-chan int, error) `rpc_method:"T.Sub"`
	Echo  func(ctx context.Context, tok int) (int, error)
}

// consumer state of one subscription on the client side
type subState struct {
	mu       sync.Mutex
	got      []int
	closed   bool
	closes   int
	afterCl  int
	returned bool
	err      error
	hasChan  bool
}

func (st *subState) snapshot() (got []int, closed bool, returned bool, err error, hasChan bool) {
	st.mu.Lock()
	defer st.mu.Unlock()
	return append([]int(nil), st.got...), st.closed, st.returned, st.err, st.hasChan
}

func isPrefix(a, b []int) bool {
	if len(a) > len(b) {
		return false
	}
	for i := range a {
		if a[i] != b[i] {
			return false
		}
	}
	return true
}

// S-STREAMLONG: one subscriber stops reading a very long stream (more values than any fixed
// buffer anyone would put in front of it); the other subscription and an ordinary call on the
// same connection must not notice. One execution per base schedule (bound 0): the length, not
// the interleaving, is the dimension here.
func init() {
	Register(&Scenario{
		Name:     "streamlong",
		Property: "C07",
		Cfg:      vsched.Config{Horizon: 10 * time.Second, MaxSteps: 40000000},
		Params: func(tier string) []Param {
			return []Param{
				{Name: "k2-l20000,3-stalled0", Bound: 0, V: map[string]int{"k": 2, "l0": 20000, "l1": 3, "mode": 2}},
				// the second subscription and the ordinary call are made after the handler of the
				// stalled stream has produced all of it
				{Name: "k2-l20000,3-stalled0-late", Bound: 0, V: map[string]int{"k": 2, "l0": 20000, "l1": 3, "mode": 2, "late": 1}},
			}
		},
		Body: streamBody,
	})
}

func init() {
	Register(&Scenario{
		Name:     "stream",
		OptsToo:  true,
		LazyToo:  true,
		Property: "C07",
		Cfg:      vsched.Config{Horizon: 10 * time.Second},
		Params: func(tier string) []Param {
			var ps []Param
			add := func(name string, bound int, v map[string]int) { ps = append(ps, Param{Name: name, Bound: bound, V: v}) }
			if tier == "quick" {
				add("k2-l1,3-attentive", 1, map[string]int{"k": 2, "l0": 1, "l1": 3, "mode": 0})
				add("k1-l3-attentive", 2, map[string]int{"k": 1, "l0": 3, "mode": 0})
				add("k1-l3-late", 1, map[string]int{"k": 1, "l0": 3, "mode": 1})
				add("k2-l3,3-stalled0", 1, map[string]int{"k": 2, "l0": 3, "l1": 3, "mode": 2})
				add("k1-l0", 2, map[string]int{"k": 1, "l0": 0, "mode": 0})
				add("k1-l3-buffered", 1, map[string]int{"k": 1, "l0": 3, "mode": 0, "buf": 2})
				add("k1-l40-late", 0, map[string]int{"k": 1, "l0": 40, "mode": 1})
				// three live subscriptions, the oldest ends first (index bookkeeping of the forwarder)
				add("k3-l1,3,3-attentive", 1, map[string]int{"k": 3, "l0": 1, "l1": 3, "l2": 3, "mode": 0})
				add("k3-l1,3,3-sync", 1, map[string]int{"k": 3, "l0": 1, "l1": 3, "l2": 3, "mode": 0, "sync": 1})
				add("k2-l3,3-sync", 1, map[string]int{"k": 2, "l0": 3, "l1": 3, "mode": 0, "sync": 1})
				add("k2-l1,3-attentive-desc", 1, map[string]int{"k": 2, "l0": 1, "l1": 3, "mode": 0, "desc": 1})
				add("k2-l3,3-nan", 1, map[string]int{"k": 2, "l0": 3, "l1": 3, "mode": 0, "nan": 1})
				// element type with optional fields / map / slice / pointer
				add("k1-l3-rich", 1, map[string]int{"k": 1, "l0": 3, "mode": 0, "rich": 1})
				// subscriptions made with a context that can never be cancelled (context.Background)
				add("k2-l3,3-bgctx", 1, map[string]int{"k": 2, "l0": 3, "l1": 3, "mode": 0, "bg": 1})
				add("k1-l40-bgctx", 0, map[string]int{"k": 1, "l0": 40, "mode": 0, "bg": 1})
				// ... and through client functions that have no context parameter at all
				add("k2-l3,3-noctx", 1, map[string]int{"k": 2, "l0": 3, "l1": 3, "mode": 0, "noctx": 1})
				return ps
			}
			add("k2-l1,3-attentive", 2, map[string]int{"k": 2, "l0": 1, "l1": 3, "mode": 0})
			add("k2-l3,1-attentive", 2, map[string]int{"k": 2, "l0": 3, "l1": 1, "mode": 0})
			add("k1-l3-attentive", 3, map[string]int{"k": 1, "l0": 3, "mode": 0})
			add("k1-l1-attentive", 3, map[string]int{"k": 1, "l0": 1, "mode": 0})
			add("k1-l3-late", 2, map[string]int{"k": 1, "l0": 3, "mode": 1})
			add("k2-l3,3-stalled0", 2, map[string]int{"k": 2, "l0": 3, "l1": 3, "mode": 2})
			add("k1-l0", 3, map[string]int{"k": 1, "l0": 0, "mode": 0})
			add("k2-l0,0", 2, map[string]int{"k": 2, "l0": 0, "l1": 0, "mode": 0})
			add("k1-l3-buffered", 2, map[string]int{"k": 1, "l0": 3, "mode": 0, "buf": 2})
			add("k1-l40-late", 1, map[string]int{"k": 1, "l0": 40, "mode": 1})
			add("k1-l40-attentive", 1, map[string]int{"k": 1, "l0": 40, "mode": 0})
			add("k2-l40,3-stalled0", 0, map[string]int{"k": 2, "l0": 40, "l1": 3, "mode": 2})
			// longer than the frame executor's 256-slot queue and the 32-slot sink buffer
			add("k1-l300-late", 0, map[string]int{"k": 1, "l0": 300, "mode": 1})
			add("k1-l300-attentive", 0, map[string]int{"k": 1, "l0": 300, "mode": 0})
			add("k3-l1,3,3-attentive", 2, map[string]int{"k": 3, "l0": 1, "l1": 3, "l2": 3, "mode": 0})
			add("k3-l3,1,3-attentive", 1, map[string]int{"k": 3, "l0": 3, "l1": 1, "l2": 3, "mode": 0})
			add("k3-l1,3,3-sync", 2, map[string]int{"k": 3, "l0": 1, "l1": 3, "l2": 3, "mode": 0, "sync": 1})
			add("k3-l3,1,3-sync", 2, map[string]int{"k": 3, "l0": 3, "l1": 1, "l2": 3, "mode": 0, "sync": 1})
			add("k2-l3,3-sync", 2, map[string]int{"k": 2, "l0": 3, "l1": 3, "mode": 0, "sync": 1})
			add("k2-l1,3-attentive-desc", 2, map[string]int{"k": 2, "l0": 1, "l1": 3, "mode": 0, "desc": 1})
			add("k1-l3-attentive-desc", 3, map[string]int{"k": 1, "l0": 3, "mode": 0, "desc": 1})
			add("k2-l3,3-nan", 2, map[string]int{"k": 2, "l0": 3, "l1": 3, "mode": 0, "nan": 1})
			add("k1-l3-rich", 2, map[string]int{"k": 1, "l0": 3, "mode": 0, "rich": 1})
			add("k1-l3-rich-late", 1, map[string]int{"k": 1, "l0": 3, "mode": 1, "rich": 1})
			add("k2-l3,3-bgctx", 2, map[string]int{"k": 2, "l0": 3, "l1": 3, "mode": 0, "bg": 1})
			add("k1-l40-bgctx", 1, map[string]int{"k": 1, "l0": 40, "mode": 0, "bg": 1})
			add("k1-l3-bgctx-late", 2, map[string]int{"k": 1, "l0": 3, "mode": 1, "bg": 1})
			add("k2-l3,3-noctx", 2, map[string]int{"k": 2, "l0": 3, "l1": 3, "mode": 0, "noctx": 1})
			return ps
		},
		Body: streamBody,
	})
}

// streamWorld is shared by the C07 and C08 scenarios.
type streamWorld struct {
	w      *World
	srv    *StreamSrv
	cli    StreamCli
	closer jsonrpc.ClientCloser
	subs   []*subState
	noctx  bool
	ctxs   []context.Context
	cancel []context.CancelFunc
}

func newStreamWorld(s *vsched.Sched, k int, buffered int, reconnect bool, obeyCtx bool) (*streamWorld, error) {
	sw := &streamWorld{}
	sw.w = NewWorld(s, jsonrpc.WithServerPingInterval(0))
	sw.srv = &StreamSrv{s: s, sent: map[int][]int{}, prodDone: map[int]bool{}, hctx: map[int]context.Context{}, buffered: buffered, obeyCtx: obeyCtx}
	sw.w.RPC.Register("T", sw.srv)
	sw.w.Serve()
	opts := []jsonrpc.Option{jsonrpc.WithPingInterval(0), jsonrpc.WithTimeout(0)}
	if reconnect {
		opts = append(opts, jsonrpc.WithReconnectBackoff(10*time.Millisecond, 40*time.Millisecond))
	} else {
		opts = append(opts, jsonrpc.WithNoReconnect())
	}
	var err error
	sw.closer, err = sw.w.WS("T", &sw.cli, opts...)
	for i := 0; i < k; i++ {
		sw.subs = append(sw.subs, &subState{})
		ctx, c := context.WithCancel(context.Background())
		sw.ctxs = append(sw.ctxs, ctx)
		sw.cancel = append(sw.cancel, c)
	}
	return sw, err
}

// subscribe runs subscription i on the calling actor: issue Sub, then (mode permitting)
// consume until the channel closes, and keep receiving afterwards to catch late deliveries.
func (sw *streamWorld) subscribe(s *vsched.Sched, i, n int, consume func() bool) {
	st := sw.subs[i]
	var ch <-chan int
	var err error
	if sw.noctx {
		ch, err = sw.cli.SubNC(i+1, n)
	} else {
		ch, err = sw.cli.Sub(sw.ctxs[i], i+1, n)
	}
	st.mu.Lock()
	st.returned, st.err, st.hasChan = true, err, ch != nil
	st.mu.Unlock()
	if err != nil || ch == nil {
		return
	}
	if !consume() {
		return
	}
	for v := range ch {
		st.mu.Lock()
		st.got = append(st.got, v)
		st.mu.Unlock()
	}
	st.mu.Lock()
	st.closed = true
	st.closes++
	st.mu.Unlock()
	// a closed channel yields zero values for ever; a second "close" or a late value cannot be
	// observed here, but a send on the closed channel would panic inside the library and is
	// caught by the scheduler as a PANIC violation.
}

func streamBody(s *vsched.Sched, p Param) {
	k, mode := p.I("k"), p.I("mode")
	lens := []int{p.I("l0"), p.I("l1"), p.I("l2")}
	sw, err := newStreamWorld(s, k, p.I("buf"), false, false)
	if err != nil {
		s.Violate("HARNESS: setup: %v", err)
		return
	}
	if p.I("sync") == 1 {
		sw.srv.syncK = k
	}
	sw.noctx = p.I("noctx") == 1
	if p.I("bg") == 1 {
		for i := range sw.ctxs {
			sw.ctxs[i] = context.Background()
		}
	}
	allReturned := func() bool {
		for _, st := range sw.subs {
			if _, _, ret, _, _ := st.snapshot(); !ret {
				return false
			}
		}
		return true
	}
	obs := NewObs()
	var richMu sync.Mutex
	var richGot []Rich
	var anyGot []interface{}
	s.Teardown = func() {
		for _, c := range sw.cancel {
			c()
		}
		sw.w.Teardown()
	}
	s.EnvEnabled = func(name string) bool {
		switch name {
		case "sub-go": // all handlers have started: they race to register their channels
			return sw.srv.Entered() >= k
		case "prod-go": // all subscriptions are established before any value flows
			return allReturned()
		}
		if name == "consume-rich" {
			return true
		}
		if name == "late-go" {
			return sw.srv.Done(1)
		}
		if strings.HasPrefix(name, "consume-") {
			var i int
			fmt.Sscanf(name, "consume-%d", &i)
			return sw.srv.Done(i+1) || lens[i] > 33 // a long producer cannot finish before the consumer starts
		}
		return true
	}
	s.Finish = func() {
		for i := 0; i < k; i++ {
			got, closed, returned, err, _ := sw.subs[i].snapshot()
			sent := sw.srv.Sent(i + 1)
			stalled := mode == 2 && i == 0
			if !returned {
				s.Violate("C07: Sub %d never returned; alive: %s", i, strings.Join(s.Alive(), " "))
				continue
			}
			if err != nil {
				s.Violate("C07: Sub %d failed on a healthy connection: %v", i, err)
				continue
			}
			obs.Set(fmt.Sprintf("sub%d", i), "got=%v closed=%v", got, closed)
			if stalled {
				continue
			}
			want := make([]int, lens[i])
			for j := range want {
				want[j] = (i+1)*1000 + j
			}
			if fmt.Sprint(got) != fmt.Sprint(want) {
				s.Violate("C07: subscription %d received %v, handler sent %v (want exactly %v, in order, once each)", i, got, sent, want)
			}
			if !closed {
				s.Violate("C07: subscription %d: caller's channel not closed after the handler closed its channel; got %v; alive: %s", i, got, strings.Join(s.Alive(), " "))
			}
		}
		if v, ok := obs.Get("echo"); !ok {
			s.Violate("C07: unary call blocked by the streams (stalled subscriber must not block ordinary calls); alive: %s", strings.Join(s.Alive(), " "))
		} else if v != "5/<nil>" {
			s.Violate("C07: unary call returned %s", v)
		}
		if p.I("rich") == 1 {
			richMu.Lock()
			gotA, _ := json.Marshal(anyGot)
			richMu.Unlock()
			wantA, _ := json.Marshal(anyValues())
			if v, _ := obs.Get("any"); v != "closed" {
				s.Violate("C07: interface-valued subscription did not complete: %q; alive: %s", v, strings.Join(s.Alive(), " "))
			} else if string(gotA) != string(wantA) {
				s.Violate("C07: interface-valued subscription delivered %s, handler sent %s (nil elements are values too)", gotA, wantA)
			}
			richMu.Lock()
			gotJ, _ := json.Marshal(richGot)
			richMu.Unlock()
			wantJ, _ := json.Marshal(richValues())
			if v, _ := obs.Get("rich"); v != "closed" {
				s.Violate("C07: struct-valued subscription did not complete: %q; alive: %s", v, strings.Join(s.Alive(), " "))
			} else if string(gotJ) != string(wantJ) {
				s.Violate("C07: struct-valued subscription: caller holds %s, handler sent %s (each value must arrive exactly as sent and stay that way)", gotJ, wantJ)
			}
		}
		checkStreamWire(s, sw.w, "C07")
		obs.Set("wire", "%s", wireOrder(sw.w))
		s.SetObs(obs.String())
	}
	s.Begin()
	if p.I("rich") == 1 {
		s.Go("sub-any", func() {
			ch, err := sw.cli.SubAny(sw.ctxs[0], 7)
			if err != nil || ch == nil {
				obs.Set("any", "err:%v", err)
				return
			}
			obs.Set("any", "open")
			for v := range ch {
				richMu.Lock()
				anyGot = append(anyGot, v)
				richMu.Unlock()
			}
			obs.Set("any", "closed")
		})
		s.Go("sub-rich", func() {
			ch, err := sw.cli.SubRich(sw.ctxs[0], 8)
			if err != nil || ch == nil {
				obs.Set("rich", "err:%v", err)
				return
			}
			obs.Set("rich", "open")
			if mode == 1 {
				s.Env("consume-rich")
			}
			for v := range ch {
				richMu.Lock()
				richGot = append(richGot, v) // maps, slices and pointers are kept as delivered
				richMu.Unlock()
			}
			obs.Set("rich", "closed")
		})
	}
	for i := 0; i < k; i++ {
		i := i
		s.Go(fmt.Sprintf("sub-%d", i), func() {
			if p.I("late") == 1 && i > 0 {
				s.Env("late-go") // only once the stalled stream has been produced in full
			}
			sw.subscribe(s, i, lens[i], func() bool {
				switch {
				case mode == 2 && i == 0:
					return false // stalled: never reads
				case mode == 1:
					s.Env(fmt.Sprintf("consume-%d", i))
				}
				return true
			})
		})
	}
	s.Go("unary", func() {
		if p.I("late") == 1 {
			s.Env("late-go")
		}
		v, err := sw.cli.Echo(context.Background(), 5)
		obs.Set("echo", "%d/%v", v, err)
	})
	if p.I("nan") == 1 {
		s.Go("sub-nan", func() {
			ch, err := sw.cli.SubNaN(sw.ctxs[0], 9)
			if err != nil || ch == nil {
				obs.Set("nan", "err:%v", err)
				return
			}
			var got []float64
			for v := range ch {
				got = append(got, v)
			}
			obs.Set("nan", "%v", got)
		})
	}
}

// checkStreamWire: on every link, for each channel id the response announcing it precedes
// its first xrpc.ch.val, and xrpc.ch.close follows its last value.
func checkStreamWire(s *vsched.Sched, w *World, tag string) {
	for li := 0; li < w.Net.LinkCount(); li++ {
		lk := w.Net.Link(li)
		frames, st := WireFrames(lk, vnet.S2C)
		for _, e := range st.Errors {
			s.Violate("%s: wire framing (link %d): %s", tag, li, e)
		}
		announced := map[string]bool{}
		closedCh := map[string]bool{}
		for _, f := range frames {
			if f.Bad {
				continue
			}
			switch f.Method {
			case "":
				if len(f.Result) > 0 && f.Error == nil {
					announced[strings.TrimSpace(string(f.Result))] = true
				}
			case "xrpc.ch.val", "xrpc.ch.close":
				var ps []json.RawMessage
				if json.Unmarshal(f.Params, &ps) != nil || len(ps) == 0 {
					s.Violate("%s: malformed channel frame on the wire: %s", tag, f.Raw)
					continue
				}
				id := strings.TrimSpace(string(ps[0]))
				if !announced[id] {
					s.Violate("%s: %s for channel %s precedes the response that announces the channel: %s", tag, f.Method, id, f.Raw)
				}
				if closedCh[id] {
					s.Violate("%s: %s for channel %s after its xrpc.ch.close", tag, f.Method, id)
				}
				if f.Method == "xrpc.ch.close" {
					closedCh[id] = true
				}
			}
		}
	}
}

// wireOrder is a schedule-dependent observation: the order of frames on the wire.
func wireOrder(w *World) string {
	var sb strings.Builder
	for li := 0; li < w.Net.LinkCount(); li++ {
		lk := w.Net.Link(li)
		for _, d := range []vnet.Dir{vnet.C2S, vnet.S2C} {
			frames, _ := WireFrames(lk, d)
			fmt.Fprintf(&sb, "L%d%s:", li, d)
			for _, f := range frames {
				switch {
				case f.Bad:
					sb.WriteString("?")
				case f.Method == "":
					sb.WriteString("r" + string(f.ID))
				case f.Method == "xrpc.ch.val":
					sb.WriteString("v")
				case f.Method == "xrpc.ch.close":
					sb.WriteString("c")
				case f.Method == "xrpc.cancel":
					sb.WriteString("x")
				default:
					sb.WriteString("q" + string(f.ID))
				}
				sb.WriteString(",")
			}
		}
	}
	return sb.String()
}
