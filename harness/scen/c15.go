package scen

import (
	"context"
	"fmt"
	"strings"
	"sync"
	"time"

	jsonrpc "github.com/filecoin-project/go-jsonrpc"

	"verifharness/vnet"
	"verifharness/vsched"
)

// EndSrv: handlers that are still running when their connection ends.
type EndSrv struct {
	s       *vsched.Sched
	mu      sync.Mutex
	ctxs    map[string]context.Context
	started map[string]bool
	retd    map[string]bool
	later   bool
}

func (h *EndSrv) enter(name string, ctx context.Context) {
	h.mu.Lock()
	h.ctxs[name] = ctx
	h.started[name] = true
	h.mu.Unlock()
}

func (h *EndSrv) leave(name string) {
	h.mu.Lock()
	h.retd[name] = true
	h.mu.Unlock()
}

func (h *EndSrv) wait(name string, ctx context.Context) {
	if h.later {
		// returns at a free point after the connection's goroutine has exited
		h.s.Env("release-" + name)
		return
	}
	<-ctx.Done()
}

func (h *EndSrv) Hold(ctx context.Context, tok int) (int, error) {
	h.enter("unary", ctx)
	defer h.leave("unary")
	h.wait("unary", ctx)
	return tok, nil
}

func (h *EndSrv) HoldBig(ctx context.Context, tok int) (string, error) {
	h.enter("big", ctx)
	defer h.leave("big")
	h.wait("big", ctx)
	return strings.Repeat("y", 5000), nil
}

func (h *EndSrv) HoldNote(ctx context.Context, tok int) error {
	h.enter("notify", ctx)
	defer h.leave("notify")
	h.wait("notify", ctx)
	return nil
}

func (h *EndSrv) Sub(ctx context.Context, id int) (<-chan int, error) {
	h.enter("stream", ctx)
	out := make(chan int)
	h.s.Go("prod", func() {
		defer h.leave("stream")
		defer close(out)
		for j := 0; ; j++ {
			select {
			case out <- j:
				if j >= 1 {
					// after two values the producer idles until it is cancelled
					<-ctx.Done()
					return
				}
			case <-ctx.Done():
				return
			}
		}
	})
	return out, nil
}

// LateSub returns its channel only after waiting (so the registration of the channel races
// the end of the connection).
func (h *EndSrv) LateSub(ctx context.Context, id int) (<-chan int, error) {
	h.enter("latestream", ctx)
	defer h.leave("latestream")
	h.wait("latestream", ctx)
	out := make(chan int)
	close(out)
	return out, nil
}

// Quick returns a 5 KiB result at once; with the server->client direction stalled its response
// write blocks while holding the connection's write lock.
func (h *EndSrv) Quick(ctx context.Context, tok int) (string, error) {
	h.enter("stalled", ctx)
	defer h.leave("stalled")
	return strings.Repeat("q", 5000), nil
}

type EndCli struct {
	Quick    func(ctx context.Context, tok int) (string, error)
	LateSub  func(ctx context.Context, id int) (<-chan int, error)
	Hold     func(ctx context.Context, tok int) (int, error)
	HoldBig  func(ctx context.Context, tok int) (string, error)
	HoldNote func(ctx context.Context, tok int) error `notify:"true"`
	Sub      func(ctx context.Context, id int) (<-chan int, error)
}

// S-CONNEND (DESIGN §3 C15).
func init() {
	Register(&Scenario{
		Name:     "connend",
		LazyToo:  true,
		DescToo:  true,
		Property: "C15",
		Cfg:      vsched.Config{Horizon: 10 * time.Second},
		Params: func(tier string) []Param {
			var ps []Param
			causes := []string{"close", "fin", "rst", "srvctx"}
			mixes := []string{"unary", "notify", "stream", "big", "latestream"}
			b := 1
			if tier == "thorough" {
				b = 2
			}
			for _, c := range causes {
				for _, m := range mixes {
					for _, later := range []int{0, 1} {
						b := b
						// the registration of a late channel races the end of the connection at
						// several points at once: explored one level deeper
						if m == "latestream" && later == 0 && (tier == "thorough" || c == "fin" || c == "rst") {
							b = 3
						}
						ps = append(ps, Param{Name: fmt.Sprintf("%s-%s-later%d", c, m, later), Bound: b,
							V: map[string]int{"later": later}, S: map[string]string{"cause": c, "mix": m}})
					}
				}
				// the peer is alive but has stopped reading: a response write is stuck (holding the
				// write lock) when the connection ends
				ps = append(ps, Param{Name: fmt.Sprintf("%s-stalled-later0", c), Bound: b,
					V: map[string]int{"later": 0, "stall": 1}, S: map[string]string{"cause": c, "mix": "stalled,unary"}})
				// the peer sent a frame the server cannot decode some time before the connection ends
				ps = append(ps, Param{Name: fmt.Sprintf("%s-unary-later0-garbage", c), Bound: b,
					V: map[string]int{"later": 0, "garbage": 1}, S: map[string]string{"cause": c, "mix": "unary"}})
				// ... or protocol-internal frames about ids that are not (or no longer) current: a
				// cancel for a call that is not running, a close for an unknown channel, a response
				// to a request never made
				ps = append(ps, Param{Name: fmt.Sprintf("%s-unary-later0-stale", c), Bound: b,
					V: map[string]int{"later": 0, "garbage": 2}, S: map[string]string{"cause": c, "mix": "unary"}})
				// ... or the first half of a large message and then nothing more (the connection ends
				// while a message is being received)
				ps = append(ps, Param{Name: fmt.Sprintf("%s-unary-later0-partial", c), Bound: b,
					V: map[string]int{"later": 0, "garbage": 3}, S: map[string]string{"cause": c, "mix": "unary"}})
				// server pings on: the end event lands at a ping tick (a ping write may fail while
				// handlers are still running)
				ps = append(ps, Param{Name: fmt.Sprintf("%s-unary-later1-pings", c), Bound: b,
					V: map[string]int{"later": 1, "pings": 1}, S: map[string]string{"cause": c, "mix": "unary"}})
				if tier == "thorough" {
					for _, later := range []int{0, 1} {
						ps = append(ps, Param{Name: fmt.Sprintf("%s-all-later%d", c, later), Bound: 1,
							V: map[string]int{"later": later}, S: map[string]string{"cause": c, "mix": "unary,notify,stream,big"}})
					}
				}
			}
			return ps
		},
		Body: connendBody,
	})
}

func connendBody(s *vsched.Sched, p Param) {
	sp := time.Duration(0)
	if p.I("pings") == 1 {
		sp = time.Second
	}
	w := NewWorld(s, jsonrpc.WithServerPingInterval(sp))
	srv := &EndSrv{s: s, ctxs: map[string]context.Context{}, started: map[string]bool{}, retd: map[string]bool{}, later: p.I("later") == 1}
	w.RPC.Register("T", srv)
	w.Serve()
	var cli EndCli
	closer, err := w.WS("T", &cli, jsonrpc.WithPingInterval(0), jsonrpc.WithTimeout(0), jsonrpc.WithNoReconnect())
	if err != nil {
		s.Violate("HARNESS: setup: %v", err)
		return
	}
	obs := NewObs()
	mix := strings.Split(p.Str("mix"), ",")
	subCtx, subCancel := context.WithCancel(context.Background())
	s.Teardown = func() { subCancel(); w.Teardown() }
	connGone := func() bool {
		for _, a := range s.Alive() {
			if strings.HasPrefix(a, "srv-cli-0:") {
				return false
			}
		}
		return true
	}
	allStarted := func() bool {
		srv.mu.Lock()
		defer srv.mu.Unlock()
		for _, m := range mix {
			if !srv.started[m] {
				return false
			}
		}
		return true
	}
	fired := false
	s.EnvEnabled = func(name string) bool {
		if strings.HasPrefix(name, "release-") {
			return fired && connGone()
		}
		if name == "end-go" {
			if p.I("pings") == 1 && s.Now() < time.Second {
				return false
			}
			return allStarted()
		}
		return true
	}
	s.Finish = func() {
		if !fired {
			s.Violate("HARNESS: the end-of-connection event never fired")
			return
		}
		srv.mu.Lock()
		for _, m := range mix {
			if !srv.started[m] {
				continue
			}
			if srv.ctxs[m].Err() == nil {
				s.Violate("C15: the context of the %s handler was not cancelled although its connection ended (%s)", m, p.Str("cause"))
			}
			obs.Set("h-"+m, "ctxdone=%v returned=%v", srv.ctxs[m].Err() != nil, srv.retd[m])
		}
		allRet := true
		for _, m := range mix {
			if srv.started[m] && !srv.retd[m] {
				allRet = false
			}
		}
		srv.mu.Unlock()
		if allRet {
			var left []string
			for _, a := range s.Alive() {
				if strings.HasPrefix(a, "srv-cli-0") {
					left = append(left, a)
				}
			}
			if len(left) > 0 {
				s.Violate("C15: all handlers have returned but the server still retains library goroutines for the dead connection: %s", strings.Join(left, " "))
			}
		} else if p.I("later") == 0 {
			s.Violate("HARNESS: handlers did not return although their contexts were cancelled")
		}
		s.SetObs(obs.String())
	}
	s.Begin()
	for _, m := range mix {
		switch m {
		case "stalled":
			w.Net.Link(0).Stall(vnet.S2C)
			s.Go("c-stalled", func() { _, err := cli.Quick(context.Background(), 7); obs.Set("ret-stalled", "%s", errClass(err)) })
		case "unary":
			s.Go("c-unary", func() { _, err := cli.Hold(context.Background(), 1); obs.Set("ret-unary", "%s", errClass(err)) })
		case "big":
			s.Go("c-big", func() { _, err := cli.HoldBig(context.Background(), 2); obs.Set("ret-big", "%s", errClass(err)) })
		case "notify":
			s.Go("c-notify", func() { err := cli.HoldNote(context.Background(), 3); obs.Set("ret-notify", "%s", errClass(err)) })
		case "latestream":
			s.Go("c-latestream", func() {
				ch, err := cli.LateSub(subCtx, 2)
				obs.Set("ret-latestream", "%s", errClass(err))
				if err == nil && ch != nil {
					for range ch {
					}
				}
			})
		case "stream":
			s.Go("c-stream", func() {
				ch, err := cli.Sub(subCtx, 1)
				obs.Set("ret-stream", "%s", errClass(err))
				if err == nil && ch != nil {
					for range ch {
					}
				}
			})
		}
	}
	if g := p.I("garbage"); g > 0 {
		s.Go("ygarbage", func() {
			s.Env("end-go") // after the handlers have started, before the end event (sorts before "zend")
			inj := func(payload string) { w.Net.Link(0).Inject(vnet.C2S, vnet.TextFrame([]byte(payload), true)) }
			switch g {
			case 1:
				inj(`{not json`)
				inj(`{"jsonrpc":"2.0","id":[1],"method":"T.Hold","params":[9]}`)
			case 2:
				inj(`{"jsonrpc":"2.0","method":"xrpc.cancel","params":[999]}`)
				inj(`{"jsonrpc":"2.0","method":"xrpc.ch.close","params":[77]}`)
				inj(`{"jsonrpc":"2.0","id":4242,"result":1}`)
			case 3:
				f := vnet.TextFrame([]byte(`{"jsonrpc":"2.0","id":55,"method":"T.Hold","params":[`+strings.Repeat(" ", 9000)+`5]}`), true)
				w.Net.Link(0).Inject(vnet.C2S, f[:len(f)/2])
			}
		})
	}
	s.Go("zend", func() {
		s.Env("end-go")
		fired = true
		switch p.Str("cause") {
		case "close":
			closer()
		case "fin":
			w.Net.Link(0).Sever(vnet.FIN)
		case "rst":
			w.Net.Link(0).Sever(vnet.RST)
		case "srvctx":
			w.SrvCancel()
		}
	})
}
