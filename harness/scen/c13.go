package scen

import (
	"context"
	"encoding/json"
	"errors"
	"fmt"
	"io"
	"net/http"
	"reflect"
	"strings"
	"sync"
	"sync/atomic"
	"time"

	jsonrpc "github.com/filecoin-project/go-jsonrpc"

	"verifharness/vsched"
)

type customPanic struct{ A int }

// typedNilErr: the "typed nil error" gotcha - an error whose Error method dereferences a nil receiver
type typedNilErr struct{ msg string }

func (e *typedNilErr) Error() string { return e.msg }

// badStringer: a Stringer whose String method itself panics
type badStringer struct{}

func (badStringer) String() string { panic("stringer exploded") }

// codedPanic: an application error that brings its own JSON-RPC form (RPCErrorCodec); used as a
// panic payload it is still a panic, not an application error
type codedPanic struct{ msg string }

func (e *codedPanic) Error() string { return e.msg }
func (e *codedPanic) ToJSONRPCError() (jsonrpc.JSONRPCError, error) {
	return jsonrpc.JSONRPCError{Code: 7, Message: e.msg}, nil
}
func (e *codedPanic) FromJSONRPCError(j jsonrpc.JSONRPCError) error { e.msg = j.Message; return nil }

// PanicSrv: one method per panic payload, plus healthy siblings.
type PanicSrv struct {
	s     *vsched.Sched
	mu    sync.Mutex
	boomN int
}

func (h *PanicSrv) doPanic(payload string) {
	h.mu.Lock()
	h.boomN++
	h.mu.Unlock()
	switch payload {
	case "string":
		panic("boom-string")
	case "error":
		panic(errors.New("boom-error"))
	case "nilmap":
		var m map[string]int
		m["x"] = 1
	case "nilderef":
		var p *customPanic
		_ = p.A
	case "custom":
		panic(customPanic{A: 7})
	case "nil":
		panic(nil)
	case "nilerr":
		var e *typedNilErr
		panic(e)
	case "badstringer":
		panic(badStringer{})
	case "codec": // an error type the library knows how to put on the wire by itself
		panic(&codedPanic{msg: "insufficient funds"})
	case "rpcerr": // the library's own wire error type
		panic(&jsonrpc.JSONRPCError{Code: 7, Message: "insufficient funds"})
	case "wrapped": // an error chain with a coded error inside
		panic(fmt.Errorf("while paying: %w", &codedPanic{msg: "insufficient funds"}))
	case "aborthandler": // the sentinel net/http treats specially
		panic(http.ErrAbortHandler)
	}
}

func (h *PanicSrv) Boom(ctx context.Context, payload string) (int, error) {
	h.doPanic(payload)
	return 1, nil
}

// BoomAfterCancel panics only after its caller has cancelled the call.
func (h *PanicSrv) BoomAfterCancel(ctx context.Context, payload string) (int, error) {
	<-ctx.Done()
	h.doPanic(payload)
	return 1, nil
}

func (h *PanicSrv) BoomNote(ctx context.Context, payload string) error {
	h.doPanic(payload)
	return nil
}

func (h *PanicSrv) BoomSub(ctx context.Context, payload string) (<-chan int, error) {
	h.doPanic(payload)
	return nil, nil
}

func (h *PanicSrv) Echo(ctx context.Context, tok int) (int, error) {
	if tok < 50 {
		h.s.Env(fmt.Sprintf("complete-%d", tok))
	}
	return tok, nil
}

func (h *PanicSrv) Sub(ctx context.Context, id int, n int) (<-chan int, error) {
	out := make(chan int)
	h.s.Go(fmt.Sprintf("prod-%d", id), func() {
		defer close(out)
		for j := 0; j < n; j++ {
			select {
			case out <- id*1000 + j:
			case <-ctx.Done():
				return
			}
		}
	})
	return out, nil
}

// CallRev calls back into the client's (panicking) reverse handler.
func (h *PanicSrv) CallRev(ctx context.Context, payload string) (string, error) {
	rc, ok := jsonrpc.ExtractReverseClient[PanicRevCli](ctx)
	if !ok {
		return "no-reverse-client", nil
	}
	_, err := rc.RBoom(ctx, payload)
	if err == nil {
		return "reverse-ok", nil
	}
	return "reverse-err:" + shortErr(err), nil
}

type PanicRevCli struct {
	RBoom func(ctx context.Context, payload string) (int, error)
}

type PanicRevHnd struct{ srv *PanicSrv }

func (r *PanicRevHnd) RBoom(ctx context.Context, payload string) (int, error) {
	r.srv.doPanic(payload)
	return 1, nil
}

type PanicCli struct {
	Boom            func(ctx context.Context, payload string) (int, error)
	BoomAfterCancel func(ctx context.Context, payload string) (int, error)
	BoomNote        func(ctx context.Context, payload string) error `notify:"true"`
	BoomSub         func(ctx context.Context, payload string) (<-chan int, error)
	Echo            func(ctx context.Context, tok int) (int, error)
	Sub             func(ctx context.Context, id int, n int) (<-chan int, error)
	CallRev         func(ctx context.Context, payload string) (string, error)
}

// S-PANIC (DESIGN §3 C13).
func init() {
	Register(&Scenario{
		Name:     "panic",
		OptsToo:  true,
		DescToo:  true,
		Property: "C13",
		Cfg:      vsched.Config{Horizon: 10 * time.Second},
		Params: func(tier string) []Param {
			var ps []Param
			payloads := []string{"string", "error", "nilmap", "nilderef", "custom", "nil", "nilerr", "badstringer", "aborthandler", "codec", "rpcerr", "wrapped"}
			kinds := []string{"unary", "notify", "chan", "reverse", "cancelled"}
			for _, k := range kinds {
				for i, pl := range payloads {
					b := 0
					if tier == "thorough" || i == 0 || (k == "unary" && i < 3) {
						b = 1
					}
					if tier == "thorough" && i == 0 {
						b = 2
					}
					ps = append(ps, Param{Name: fmt.Sprintf("ws-%s-%s", k, pl), Bound: b, V: map[string]int{"ws": 1}, S: map[string]string{"kind": k, "payload": pl}})
				}
			}
			for _, pl := range payloads {
				ps = append(ps, Param{Name: "http-unary-" + pl, Bound: 0, V: map[string]int{"ws": 0}, S: map[string]string{"kind": "unary", "payload": pl}})
			}
			// an HTTP batch in which a notification (and a call) panic next to healthy calls
			ps = append(ps, Param{Name: "http-batch-string", Bound: 0, V: map[string]int{"ws": 0}, S: map[string]string{"kind": "batch", "payload": "string"}})
			ps = append(ps, Param{Name: "http-batch-nilerr", Bound: 0, V: map[string]int{"ws": 0}, S: map[string]string{"kind": "batch", "payload": "nilerr"}})
			// two calls panicking at the same time with different payloads: each caller gets its own panic
			tb := 1
			if tier == "thorough" {
				tb = 2
			}
			ps = append(ps, Param{Name: "ws-twin", Bound: tb, V: map[string]int{"ws": 1}, S: map[string]string{"kind": "twin", "payload": "string"}})
			ps = append(ps, Param{Name: "http-twin", Bound: tb, V: map[string]int{"ws": 0}, S: map[string]string{"kind": "twin", "payload": "string"}})
			// the same with the server's tracer option set (the tracer sees every call, panicking or not)
			for _, k := range []string{"unary", "notify", "chan", "twin"} {
				ps = append(ps, Param{Name: "ws-" + k + "-string-tracer", Bound: 1, V: map[string]int{"ws": 1, "tracer": 1}, S: map[string]string{"kind": k, "payload": "string"}})
			}
			ps = append(ps, Param{Name: "http-unary-string-tracer", Bound: 0, V: map[string]int{"ws": 0, "tracer": 1}, S: map[string]string{"kind": "unary", "payload": "string"}})
			ps = append(ps, Param{Name: "http-batch-string-tracer", Bound: 0, V: map[string]int{"ws": 0, "tracer": 1}, S: map[string]string{"kind": "batch", "payload": "string"}})
			return ps
		},
		Body: panicBody,
	})
}

func panicBody(s *vsched.Sched, p Param) {
	kind, payload := p.Str("kind"), p.Str("payload")
	ws := p.I("ws") == 1
	sopts := []jsonrpc.ServerOption{jsonrpc.WithServerPingInterval(0), jsonrpc.WithReverseClient[PanicRevCli]("R")}
	var traced atomic.Int32
	if p.I("tracer") == 1 {
		sopts = append(sopts, jsonrpc.WithTracer(func(method string, params []reflect.Value, results []reflect.Value, err error) {
			traced.Add(1)
		}))
	}
	w := NewWorld(s, sopts...)
	srv := &PanicSrv{s: s}
	w.RPC.Register("T", srv)
	w.Serve()
	var cli, cli2 PanicCli
	var err error
	if ws {
		_, err = w.WS("T", &cli, jsonrpc.WithPingInterval(0), jsonrpc.WithTimeout(0), jsonrpc.WithNoReconnect(),
			jsonrpc.WithClientHandler("R", &PanicRevHnd{srv: srv}))
		if err == nil {
			_, err = w.WS("T", &cli2, jsonrpc.WithPingInterval(0), jsonrpc.WithTimeout(0), jsonrpc.WithNoReconnect())
		}
	} else {
		_, err = w.HTTPClient("T", &cli)
		cli2 = cli
	}
	if err != nil {
		s.Violate("HARNESS: setup: %v", err)
		return
	}
	obs := NewObs()
	has := func(k string) bool { _, ok := obs.Get(k); return ok }
	subCtx, subCancel := context.WithCancel(context.Background())
	s.Teardown = func() { subCancel(); w.Teardown() }
	st := &subState{}
	s.EnvEnabled = func(name string) bool {
		switch name {
		case "complete-1": // the healthy sibling stays parked until the panicking call is over
			return has("ret-boom") || (kind == "notify" && has("boom-sent") && srv.boomN > 0)
		case "second-go":
			return has("ret-boom") || kind == "notify" && has("boom-sent")
		}
		return true
	}
	s.Finish = func() {
		if kind == "batch" {
			for _, k := range []string{"ret-boom", "ret-again"} {
				if v, _ := obs.Get(k); v != "panic-confined: 70=70 71=panic-error 72=72" {
					s.Violate("C13: HTTP batch with a panicking notification and a panicking call: want results for 70 and 72 and a panic error for 71, got %q", v)
				}
			}
		} else if kind == "twin" {
			for k, want := range map[string]string{"ret-boom": "boom-string", "ret-boom2": "boom-error"} {
				if v, ok := obs.Get(k); !ok {
					s.Violate("C13: one of two concurrently panicking calls never returned (%s); alive: %s", k, strings.Join(s.Alive(), " "))
				} else if !strings.Contains(v, want) || !strings.Contains(strings.ToLower(v), "panic") {
					s.Violate("C13: of two concurrently panicking calls, %s did not receive an error mentioning its own panic (%s): %s", k, want, v)
				}
			}
		} else if kind != "notify" {
			v, ok := obs.Get("ret-boom")
			if !ok {
				s.Violate("C13: the panicking call never returned; alive: %s", strings.Join(s.Alive(), " "))
			} else if !strings.Contains(strings.ToLower(v), "panic") {
				s.Violate("C13: the caller of the panicking %s handler (payload %s) did not receive an error mentioning the panic: %s", kind, payload, v)
			}
		}
		if v, ok := obs.Get("ret-H"); !ok {
			s.Violate("C13: concurrent healthy call on the same connection never returned; alive: %s", strings.Join(s.Alive(), " "))
		} else if v != "1/<nil>" {
			s.Violate("C13: concurrent healthy call on the same connection was disturbed: %s", v)
		}
		if v, ok := obs.Get("ret-O"); !ok || v != "60/<nil>" {
			s.Violate("C13: healthy call on another connection was disturbed: %q (returned=%v)", v, ok)
		}
		if ws {
			got, closed, returned, err, _ := st.snapshot()
			if !returned || err != nil || fmt.Sprint(got) != "[1000 1001 1002]" || !closed {
				s.Violate("C13: concurrent subscription was disturbed: returned=%v err=%v got=%v closed=%v", returned, err, got, closed)
			}
		}
		if v, ok := obs.Get("ret-again"); !ok {
			s.Violate("C13: a subsequent call to the panicking method never returned")
		} else if kind != "notify" && kind != "batch" && !strings.Contains(strings.ToLower(v), "panic") {
			s.Violate("C13: a subsequent call to the panicking method behaved differently: %s", v)
		}
		if v, ok := obs.Get("ret-H2"); !ok || v != "61/<nil>" {
			s.Violate("C13: a subsequent healthy call failed: %q (returned=%v)", v, ok)
		}
		if v, ok := obs.Get("ret-H3"); !ok || v != "62/<nil>" {
			s.Violate("C13: a subsequent healthy call (concurrent with another one) failed: %q (returned=%v)", v, ok)
		}
		s.SetObs(obs.String())
	}
	var nCancel atomic.Int32
	boom := func() string {
		switch kind {
		case "notify":
			err := cli.BoomNote(context.Background(), payload)
			return fmt.Sprint(err)
		case "chan":
			ch, err := cli.BoomSub(context.Background(), payload)
			return fmt.Sprintf("%v/%v", ch != nil, err)
		case "reverse":
			v, err := cli.CallRev(context.Background(), payload)
			return fmt.Sprintf("%s/%v", v, err)
		case "batch":
			// raw HTTP batch: [healthy call 70, panicking notification, panicking call 71, healthy call 72]
			body := fmt.Sprintf(`[{"jsonrpc":"2.0","id":70,"method":"T.Echo","params":[70]},{"jsonrpc":"2.0","method":"T.BoomNote","params":[%q]},{"jsonrpc":"2.0","id":71,"method":"T.Boom","params":[%q]},{"jsonrpc":"2.0","id":72,"method":"T.Echo","params":[72]}]`, payload, payload)
			resp, err := w.HC.Post("http://"+Addr+"/rpc", "application/json", strings.NewReader(body))
			if err != nil {
				return "batch-post-failed: " + err.Error()
			}
			defer resp.Body.Close()
			raw, _ := io.ReadAll(resp.Body)
			var els []struct {
				ID     int              `json:"id"`
				Result *int             `json:"result"`
				Error  *json.RawMessage `json:"error"`
			}
			if err := json.Unmarshal(raw, &els); err != nil {
				return fmt.Sprintf("batch reply is not a JSON array (%v): %.200s", err, raw)
			}
			out := "panic-confined:"
			for _, e := range els {
				switch {
				case e.Result != nil:
					out += fmt.Sprintf(" %d=%d", e.ID, *e.Result)
				case e.Error != nil && strings.Contains(strings.ToLower(string(*e.Error)), "panic"):
					out += fmt.Sprintf(" %d=panic-error", e.ID)
				default:
					out += fmt.Sprintf(" %d=?", e.ID)
				}
			}
			return out
		case "cancelled":
			// the caller cancels while the method runs; the method panics afterwards
			ctx, cancel := context.WithCancel(context.Background())
			s.Go(fmt.Sprintf("zcancel-%d", nCancel.Add(1)), cancel)
			v, err := cli.BoomAfterCancel(ctx, payload)
			return fmt.Sprintf("%d/%v", v, err)
		default:
			v, err := cli.Boom(context.Background(), payload)
			return fmt.Sprintf("%d/%v", v, err)
		}
	}
	s.Begin()
	if kind == "twin" {
		s.Go("c-boom2", func() {
			v, err := cli.Boom(context.Background(), "error")
			obs.Set("ret-boom2", "%d/%v", v, err)
		})
	}
	s.Go("c-healthy", func() {
		v, err := cli.Echo(context.Background(), 1)
		obs.Set("ret-H", "%d/%v", v, err)
	})
	s.Go("c-other", func() {
		v, err := cli2.Echo(context.Background(), 60)
		obs.Set("ret-O", "%d/%v", v, err)
	})
	if ws {
		s.Go("c-sub", func() {
			ch, err := cli.Sub(subCtx, 1, 3)
			st.mu.Lock()
			st.returned, st.err, st.hasChan = true, err, ch != nil
			st.mu.Unlock()
			if err != nil || ch == nil {
				return
			}
			for v := range ch {
				st.mu.Lock()
				st.got = append(st.got, v)
				st.mu.Unlock()
			}
			st.mu.Lock()
			st.closed = true
			st.mu.Unlock()
		})
	}
	s.Go("c-boom", func() {
		obs.Set("boom-sent", "1")
		obs.Set("ret-boom", "%s", boom())
	})
	s.Go("zsecond", func() {
		s.Env("second-go")
		obs.Set("ret-again", "%s", boom())
		// two healthy calls of the same method at the same time, after the panics
		s.Go("zthird", func() {
			v, err := cli.Echo(context.Background(), 62)
			obs.Set("ret-H3", "%d/%v", v, err)
		})
		v, err := cli.Echo(context.Background(), 61)
		obs.Set("ret-H2", "%d/%v", v, err)
	})
}
