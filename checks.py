# property id -> how it is decided. kind "explore": scheduler scenarios (harness/scen);
# kind "seqx": sequential bounded-exhaustive enumerator (harness/seqx, test function name).
CHECKS = {
    "C02": {"kind": "explore", "scenarios": ["conc"],
            "assumptions": ["gorilla/websocket, net/http, encoding/json run natively between library gates and are treated as atomic",
                            "go1.26.8 testing/synctest bubble semantics; in-memory network vnet instead of TCP"]},
    "C03": {"kind": "explore", "scenarios": ["fault"], "tags": ["C03"], "budget": {"quick": 150, "thorough": 1500}},
    "C04": {"kind": "explore", "scenarios": ["fault"], "tags": ["C04"], "budget": {"quick": 150, "thorough": 1500}},
    "C07": {"kind": "explore", "scenarios": ["stream"], "tags": ["C07"]},
    "C08": {"kind": "explore", "scenarios": ["term"], "tags": ["C08", "C18"]},
    "C01": {"kind": "seqx", "pkg": "c01", "test": "TestC01",
            "assumptions": ["boundary-value alphabet per type and pairwise coverage for arity 3 (DESIGN §3 C01)", "HTTP/WS transports over loopback TCP"]},
    "C09": {"kind": "seqx", "pkg": "c09", "test": "TestC09",
            "assumptions": ["request bodies are drawn from the finite grammar of DESIGN §3 C09; error texts and HTTP status codes are not part of the property"]},
    "C10": {"kind": "seqx", "pkg": "c10", "test": "TestC10",
            "assumptions": ["hostile inputs are drawn from the frame alphabet, length-2 sequences and byte mutations of DESIGN §3 C10; each input runs in an isolated child process over loopback TCP"]},
    "C12": {"kind": "seqx", "pkg": "c12", "test": "TestC12",
            "assumptions": ["small universe: namespaces {A,B,''}, two handler types, 5 formatters, 14 alias tables; encoding/json is the reference for 'decodes into the declared type'"]},
    "C11": {"kind": "seqx", "pkg": "c11", "test": "TestC11",
            "assumptions": ["error species, registration tables and messages are the finite alphabets of DESIGN §3 C11", "HTTP/WS transports run over loopback TCP under the Go scheduler (no scheduling dimension in this property)"]},
    "C19": {"kind": "seqx", "pkg": "c19", "test": "TestC19",
            "assumptions": ["the checks compare permissions only for equality, so the 3-permission universe is representative"]},
}

# Properties not (yet) claimed, with the reason shown in MANIFEST.not_applicable.
NOT_APPLICABLE = {}

# Per-property wording for MANIFEST.level_claimed / level_note.
TEXT = {
    "C01": {"level": "A generated matrix of 4048 method signatures (arity 0-3, with/without ctx, 4 result shapes, 14 types; RawParams; custom param codec pairs) x all boundary-value tuples x handler outcomes x transports x formatters is enumerated against the encoding/json round-trip reference and a cross-transport differential.",
            "note": "Finite boundary alphabets; arity-3 type assignments pairwise; HTTP/WS over loopback TCP."},
    "C07": {"level": "All schedules within the deviation bound of k<=2 subscriptions (lengths 0,1,3,40; attentive, late and stalled consumers; buffered/unbuffered handler channels) plus a unary call on one connection; sequence equality and close per stream at quiescence, wire order response < first value < close.",
            "note": "Healthy connection only (faults are C08); element type int (the type matrix is C01's)."},
    "C08": {"level": "Termination causes {handler close, ctx cancel, FIN, RST, client close}, single and all ordered pairs, fired by low-priority actors so that one deviation places them at any decision point of the stream's life; at quiescence every channel handed out with a nil error is closed and what was received is a prefix.",
            "note": "A channel returned together with a non-nil error is not counted as handed to the caller. 3-value producers; reconnect on/off."},
    "C09": {"level": "Every single request and every batch up to length 2 (quick) / 3 (thorough) over a 37-element alphabet x ids x whitespace layouts, degenerate bodies and all truncations, through ServeHTTP and HandleRequest, single frames over WebSocket; compared with a reference JSON-RPC responder and per-token execution counters.",
            "note": "Error texts, HTTP status codes and codes outside the four named ones are not asserted."},
    "C10": {"level": "~4.6k hostile frames per target (server and client), length-2 sequences and byte mutations in the thorough tier, each run against live well-behaved siblings in an isolated child process with journalling; plus body sizes L-1/L/L+1 for L in {1,64,1000}.",
            "note": "Crash = child death attributed via journal and reproduced alone; waits are step timeouts, not oracles."},
    "C12": {"level": "Complete enumeration of the small dispatch universe (ordered registration sequences x 5 formatters x 14 alias tables x ~115 candidate names), client/tag agreement, and arity 0..k+1 x JSON kind per position over 1597 signatures, against a map reference model with encoding/json as the decodability reference.",
            "note": "HandleRequest transport (dispatch code is shared by all transports)."},
    "C03": {"level": "Every (fault kind x direction x frame x position-in-frame x phase of the second call x second fault) tuple is explored, each to its deviation bound, on the real reconnecting client over the in-memory network; a clock-free lost-call rule is evaluated at quiescence after a probe round-tripped, and again after the client was closed.",
            "note": "Bounded: 2 user calls + probes, frames 0..1 per direction, deviation bound 1 (2 on the reconnect-window subset in the thorough tier); RST keeps already delivered bytes readable; blackhole tuples run at bound 0 with pings on (virtual clock)."},
    "C04": {"level": "Same exhaustive fault x schedule space as C03 with per-token handler execution counters and the wire log of every link as observables (at most one request frame per plain id across all connections, notifications without id, no id-less responses).",
            "note": "As C03. Retry-tagged calls are the contrast case: repeated frames/executions are permitted only for them."},
    "C11": {"level": "The full product error species x registration table x message x method shape x handler outcome (x transport in the thorough tier) is enumerated against a reference model of the wire code and the client's table.",
            "note": "Finite alphabets as listed in DESIGN; value-form marshalable types are observed, not asserted (the statement's content clause is read as applying to types implementing the marshalling pair)."},
    "C19": {"level": "The whole finite configuration space (default set x caller set x attachment mode x required permission x method shape, plus header form x query form x verifier outcome for the HTTP handler) is enumerated completely against a set-membership reference model, with the implementation's own invocation counter as the observable.",
            "note": "3-permission universe; real auth package, httptest recorder; no scheduling dimension."},
    "C02": {"level": "Every schedule of n concurrent callers on one client (WS n=2..3, HTTP n=3..4) that deviates from the default schedule at up to the stated bound of decision points is executed on the real client, server, gorilla/websocket and net/http over an in-memory network, and each execution is checked for per-call token match, single return, exactly one handler run and one request/response frame per id on the wire. This is the level at which lost/duplicated/cross-delivered responses manifest (they need specific interleavings of registration, write, read and delivery).",
            "note": "Bounded: n<=3 (WS)/4 (HTTP) callers, deviation bound 2 (quick) / 3 (thorough); code between two gates (incl. gorilla/websocket, net/http, encoding/json) is atomic; memory-model races are out of scope of the scheduler."},
}
