# property id -> how it is decided. kind "explore": scheduler scenarios (harness/scen);
# kind "seqx": sequential bounded-exhaustive enumerator (harness/seqx, test function name).
CHECKS = {
    "C02": {"kind": "explore", "scenarios": ["conc"],
            "assumptions": ["gorilla/websocket, net/http, encoding/json run natively between library gates and are treated as atomic",
                            "go1.26.8 testing/synctest bubble semantics; in-memory network vnet instead of TCP"]},
    "C03": {"kind": "explore", "scenarios": ["fault"], "tags": ["C03"], "budget": {"quick": 150, "thorough": 1500}},
    "C04": {"kind": "explore", "scenarios": ["fault"], "tags": ["C04"], "budget": {"quick": 150, "thorough": 1500}},
    "C19": {"kind": "seqx", "pkg": "c19", "test": "TestC19",
            "assumptions": ["the checks compare permissions only for equality, so the 3-permission universe is representative"]},
}

# Properties not (yet) claimed, with the reason shown in MANIFEST.not_applicable.
NOT_APPLICABLE = {}

# Per-property wording for MANIFEST.level_claimed / level_note.
TEXT = {
    "C19": {"level": "The whole finite configuration space (default set x caller set x attachment mode x required permission x method shape, plus header form x query form x verifier outcome for the HTTP handler) is enumerated completely against a set-membership reference model, with the implementation's own invocation counter as the observable.",
            "note": "3-permission universe; real auth package, httptest recorder; no scheduling dimension."},
    "C02": {"level": "Every schedule of n concurrent callers on one client (WS n=2..3, HTTP n=3..4) that deviates from the default schedule at up to the stated bound of decision points is executed on the real client, server, gorilla/websocket and net/http over an in-memory network, and each execution is checked for per-call token match, single return, exactly one handler run and one request/response frame per id on the wire. This is the level at which lost/duplicated/cross-delivered responses manifest (they need specific interleavings of registration, write, read and delivery).",
            "note": "Bounded: n<=3 (WS)/4 (HTTP) callers, deviation bound 2 (quick) / 3 (thorough); code between two gates (incl. gorilla/websocket, net/http, encoding/json) is atomic; memory-model races are out of scope of the scheduler."},
}
