# property id -> how it is decided. kind "explore": scheduler scenarios (harness/scen);
# kind "seqx": sequential bounded-exhaustive enumerator (harness/seqx, test function name).
CHECKS = {
    "C02": {"kind": "explore", "scenarios": ["conc"],
            "assumptions": ["gorilla/websocket, net/http, encoding/json run natively between library gates and are treated as atomic",
                            "go1.26.8 testing/synctest bubble semantics; in-memory network vnet instead of TCP"]},
}

# Properties not (yet) claimed, with the reason shown in MANIFEST.not_applicable.
NOT_APPLICABLE = {}

# Per-property wording for MANIFEST.level_claimed / level_note.
TEXT = {
    "C02": {"level": "Every schedule of n concurrent callers on one client (WS n=2..3, HTTP n=3..4) that deviates from the default schedule at up to the stated bound of decision points is executed on the real client, server, gorilla/websocket and net/http over an in-memory network, and each execution is checked for per-call token match, single return, exactly one handler run and one request/response frame per id on the wire. This is the level at which lost/duplicated/cross-delivered responses manifest (they need specific interleavings of registration, write, read and delivery).",
            "note": "Bounded: n<=3 (WS)/4 (HTTP) callers, deviation bound 2 (quick) / 3 (thorough); code between two gates (incl. gorilla/websocket, net/http, encoding/json) is atomic; memory-model races are out of scope of the scheduler."},
}
