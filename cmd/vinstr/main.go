// vinstr rewrites the non-test sources of the go-jsonrpc working tree so that every
// synchronisation operation is preceded by a call into package verifshim, and emits a
// `go build -overlay` file that maps the original paths to the rewritten copies and injects
// the shim as a virtual package of the repository's module. /repo is never modified.
//
// Rules are by construct and type, never by line number (DESIGN.md §2.2).
package main

import (
	"bytes"
	"crypto/sha256"
	"encoding/hex"
	"encoding/json"
	"flag"
	"fmt"
	"go/ast"
	"go/format"
	"go/token"
	"go/types"
	"os"
	"path/filepath"
	"sort"
	"strconv"
	"strings"

	"golang.org/x/tools/go/packages"
)

type report struct {
	Rules          map[string]int `json:"rules"`
	Uninstrumented []string       `json:"uninstrumented"`
	Files          []string       `json:"files"`
	SourceHash     string         `json:"source_hash"`
}

var (
	repoDir  = flag.String("repo", "/repo", "repository working tree")
	shimDir  = flag.String("shim", "/verif/shim", "directory holding package verifshim")
	outDir   = flag.String("out", "", "output directory for rewritten files and overlay.json")
	extraOvl = flag.String("extra", "", "optional JSON file with additional overlay Replace entries")
)

func main() {
	flag.Parse()
	if abs, err := filepath.Abs(*outDir); err == nil && *outDir != "" {
		*outDir = abs
	}
	if *outDir == "" {
		fmt.Fprintln(os.Stderr, "vinstr: -out required")
		os.Exit(2)
	}
	if err := run(); err != nil {
		fmt.Fprintln(os.Stderr, "vinstr:", err)
		os.Exit(2)
	}
}

func modulePath(repo string) (string, error) {
	b, err := os.ReadFile(filepath.Join(repo, "go.mod"))
	if err != nil {
		return "", err
	}
	for _, l := range strings.Split(string(b), "\n") {
		l = strings.TrimSpace(l)
		if strings.HasPrefix(l, "module ") {
			return strings.TrimSpace(strings.TrimPrefix(l, "module ")), nil
		}
	}
	return "", fmt.Errorf("no module line in go.mod")
}

func run() error {
	mod, err := modulePath(*repoDir)
	if err != nil {
		return err
	}
	shimPath := mod + "/verifshim"

	cfg := &packages.Config{
		Mode: packages.NeedName | packages.NeedFiles | packages.NeedCompiledGoFiles | packages.NeedSyntax |
			packages.NeedTypes | packages.NeedTypesInfo | packages.NeedImports | packages.NeedDeps,
		Dir:   *repoDir,
		Tests: false,
		Env:   append(os.Environ(), "GOFLAGS=-mod=mod", "GOPROXY=off", "GOSUMDB=off"),
	}
	pkgs, err := packages.Load(cfg, "./...")
	if err != nil {
		return err
	}
	rep := &report{Rules: map[string]int{}}
	overlay := map[string]string{}
	if err := os.MkdirAll(*outDir, 0o755); err != nil {
		return err
	}
	h := sha256.New()
	for _, p := range pkgs {
		if len(p.Errors) > 0 {
			return fmt.Errorf("package %s: %v", p.PkgPath, p.Errors[0])
		}
		if strings.HasSuffix(p.PkgPath, "/verifshim") {
			continue
		}
		for i, f := range p.Syntax {
			fn := p.CompiledGoFiles[i]
			if strings.HasSuffix(fn, "_test.go") || !strings.HasPrefix(fn, *repoDir) {
				continue
			}
			src, _ := os.ReadFile(fn)
			h.Write([]byte(fn))
			h.Write(src)
			rw := &rewriter{fset: p.Fset, info: p.TypesInfo, file: f, rep: rep, fname: filepath.Base(fn), shimPath: shimPath}
			changed := rw.rewriteFile()
			if !changed {
				continue
			}
			var buf bytes.Buffer
			if err := format.Node(&buf, p.Fset, f); err != nil {
				return fmt.Errorf("printing %s: %v", fn, err)
			}
			rel, _ := filepath.Rel(*repoDir, fn)
			out := filepath.Join(*outDir, "src", rel)
			if err := os.MkdirAll(filepath.Dir(out), 0o755); err != nil {
				return err
			}
			if err := os.WriteFile(out, buf.Bytes(), 0o644); err != nil {
				return err
			}
			overlay[fn] = out
			rep.Files = append(rep.Files, rel)
		}
	}
	// inject the shim as a virtual package of the repo module
	ents, err := os.ReadDir(*shimDir)
	if err != nil {
		return err
	}
	for _, e := range ents {
		if strings.HasSuffix(e.Name(), ".go") {
			overlay[filepath.Join(*repoDir, "verifshim", e.Name())] = filepath.Join(*shimDir, e.Name())
		}
	}
	// hook files for the module's root package (shim/root/*.go, build tag verif)
	if rents, err := os.ReadDir(filepath.Join(*shimDir, "root")); err == nil {
		for _, e := range rents {
			if strings.HasSuffix(e.Name(), ".go") {
				overlay[filepath.Join(*repoDir, "zz_"+e.Name())] = filepath.Join(*shimDir, "root", e.Name())
			}
		}
	}
	if *extraOvl != "" {
		b, err := os.ReadFile(*extraOvl)
		if err != nil {
			return err
		}
		var extra map[string]string
		if err := json.Unmarshal(b, &extra); err != nil {
			return err
		}
		for k, v := range extra {
			overlay[k] = v
		}
	}
	rep.SourceHash = hex.EncodeToString(h.Sum(nil))
	sort.Strings(rep.Files)
	ob, _ := json.MarshalIndent(map[string]interface{}{"Replace": overlay}, "", " ")
	if err := os.WriteFile(filepath.Join(*outDir, "overlay.json"), ob, 0o644); err != nil {
		return err
	}
	rb, _ := json.MarshalIndent(rep, "", " ")
	return os.WriteFile(filepath.Join(*outDir, "report.json"), rb, 0o644)
}

type rewriter struct {
	fset     *token.FileSet
	info     *types.Info
	file     *ast.File
	rep      *report
	fname    string
	shimPath string
	tmp      int
	usedShim bool
	handled  map[ast.Node]bool // channel operations covered by a gate
}

const shimName = "verifshim"

func (r *rewriter) site(n ast.Node) ast.Expr {
	p := r.fset.Position(n.Pos())
	return &ast.BasicLit{Kind: token.STRING, Value: strconv.Quote(fmt.Sprintf("%s:%d", r.fname, p.Line))}
}

func (r *rewriter) fresh(prefix string) *ast.Ident {
	r.tmp++
	return ast.NewIdent(fmt.Sprintf("_vs%s%d", prefix, r.tmp))
}

func (r *rewriter) shim(fn string, args ...ast.Expr) *ast.CallExpr {
	r.usedShim = true
	return &ast.CallExpr{Fun: &ast.SelectorExpr{X: ast.NewIdent(shimName), Sel: ast.NewIdent(fn)}, Args: args}
}

func (r *rewriter) count(rule string) { r.rep.Rules[rule]++ }

func define(lhs ast.Expr, rhs ast.Expr) ast.Stmt {
	return &ast.AssignStmt{Lhs: []ast.Expr{lhs}, Tok: token.DEFINE, Rhs: []ast.Expr{rhs}}
}

func (r *rewriter) isPkg(x ast.Expr, path string) bool {
	id, ok := x.(*ast.Ident)
	if !ok {
		return false
	}
	pn, ok := r.info.Uses[id].(*types.PkgName)
	return ok && pn.Imported().Path() == path
}

func isRecvExpr(e ast.Expr) (*ast.UnaryExpr, bool) {
	for {
		p, ok := e.(*ast.ParenExpr)
		if !ok {
			break
		}
		e = p.X
	}
	u, ok := e.(*ast.UnaryExpr)
	if ok && u.Op == token.ARROW {
		return u, true
	}
	return nil, false
}

func (r *rewriter) rewriteFile() bool {
	r.handled = map[ast.Node]bool{}
	changed := false

	// R1: swap the sync import
	for _, imp := range r.file.Imports {
		p, _ := strconv.Unquote(imp.Path.Value)
		if p == "sync" {
			name := "sync"
			if imp.Name != nil {
				name = imp.Name.Name
			}
			imp.Name = ast.NewIdent(name)
			imp.Path.Value = strconv.Quote(r.shimPath)
			r.count("R1-sync-import")
			changed = true
		}
	}

	// collect statement-list holders before mutating anything
	var holders []ast.Node
	ast.Inspect(r.file, func(n ast.Node) bool {
		switch n.(type) {
		case *ast.BlockStmt, *ast.CaseClause, *ast.CommClause:
			holders = append(holders, n)
		}
		return true
	})
	for _, hnode := range holders {
		switch b := hnode.(type) {
		case *ast.BlockStmt:
			b.List = r.rewriteList(b.List)
		case *ast.CaseClause:
			b.Body = r.rewriteList(b.Body)
		case *ast.CommClause:
			b.Body = r.rewriteList(b.Body)
		}
	}

	// expression-level rules and the census of channel operations left native
	ast.Inspect(r.file, func(n ast.Node) bool {
		switch x := n.(type) {
		case *ast.CallExpr:
			if sel, ok := x.Fun.(*ast.SelectorExpr); ok {
				if sel.Sel.Name == "Select" && r.isPkg(sel.X, "reflect") {
					x.Fun = &ast.SelectorExpr{X: ast.NewIdent(shimName), Sel: ast.NewIdent("ReflectSelect")}
					x.Args = append([]ast.Expr{r.site(x)}, x.Args...)
					r.usedShim = true
					r.count("R5-reflect-select")
				}
				if sel.Sel.Name == "Float64" && r.isPkg(sel.X, "math/rand") && len(x.Args) == 0 {
					orig := &ast.SelectorExpr{X: sel.X, Sel: sel.Sel}
					x.Fun = &ast.SelectorExpr{X: ast.NewIdent(shimName), Sel: ast.NewIdent("RandFloat64")}
					x.Args = []ast.Expr{orig}
					r.usedShim = true
					r.count("R7-rand")
				}
			}
			if id, ok := x.Fun.(*ast.Ident); ok && id.Name == "close" && !r.handled[x] {
				if _, isBuiltin := r.info.Uses[id].(*types.Builtin); isBuiltin {
					r.rep.Uninstrumented = append(r.rep.Uninstrumented, fmt.Sprintf("%s close", r.pos(x)))
				}
			}
		case *ast.UnaryExpr:
			if x.Op == token.ARROW && !r.handled[x] {
				r.rep.Uninstrumented = append(r.rep.Uninstrumented, fmt.Sprintf("%s recv", r.pos(x)))
			}
		case *ast.SendStmt:
			if !r.handled[x] {
				r.rep.Uninstrumented = append(r.rep.Uninstrumented, fmt.Sprintf("%s send", r.pos(x)))
			}
		case *ast.SelectStmt:
			if !r.handled[x] {
				r.rep.Uninstrumented = append(r.rep.Uninstrumented, fmt.Sprintf("%s select", r.pos(x)))
			}
		case *ast.GoStmt:
			if !r.handled[x] {
				r.rep.Uninstrumented = append(r.rep.Uninstrumented, fmt.Sprintf("%s go", r.pos(x)))
			}
		case *ast.RangeStmt:
			if !r.handled[x] {
				if t := r.info.TypeOf(x.X); t != nil {
					if _, isMap := t.Underlying().(*types.Map); isMap {
						r.rep.Uninstrumented = append(r.rep.Uninstrumented, fmt.Sprintf("%s range-map", r.pos(x)))
					}
					if _, isChan := t.Underlying().(*types.Chan); isChan {
						r.rep.Uninstrumented = append(r.rep.Uninstrumented, fmt.Sprintf("%s range-chan", r.pos(x)))
					}
				}
			}
		}
		return true
	})

	if r.usedShim {
		changed = true
		addImport(r.file, shimName, r.shimPath)
	}
	if changed {
		// free-floating comments would be re-attached at wrong places by the printer once
		// statements have moved; keep only build constraints and compiler directives
		var keep []*ast.CommentGroup
		for _, cg := range r.file.Comments {
			directive := false
			for _, c := range cg.List {
				if strings.HasPrefix(c.Text, "//go:") || strings.HasPrefix(c.Text, "// +build") {
					directive = true
				}
			}
			if cg.End() < r.file.Package || directive {
				keep = append(keep, cg)
			}
		}
		r.file.Comments = keep
	}
	return changed
}

func (r *rewriter) pos(n ast.Node) string {
	p := r.fset.Position(n.Pos())
	return fmt.Sprintf("%s:%d", r.fname, p.Line)
}

func addImport(f *ast.File, name, path string) {
	spec := &ast.ImportSpec{Name: ast.NewIdent(name), Path: &ast.BasicLit{Kind: token.STRING, Value: strconv.Quote(path)}}
	for _, d := range f.Decls {
		if gd, ok := d.(*ast.GenDecl); ok && gd.Tok == token.IMPORT {
			gd.Specs = append(gd.Specs, spec)
			if !gd.Lparen.IsValid() {
				gd.Lparen = gd.Pos()
				gd.Rparen = gd.End()
			}
			f.Imports = append(f.Imports, spec)
			return
		}
	}
	gd := &ast.GenDecl{Tok: token.IMPORT, Specs: []ast.Spec{spec}}
	f.Decls = append([]ast.Decl{gd}, f.Decls...)
	f.Imports = append(f.Imports, spec)
}

// hoist returns (tempIdent, defineStmt) for expression e, or (e, nil) when e is already a
// plain identifier.
func (r *rewriter) hoist(e ast.Expr, prefix string) (ast.Expr, ast.Stmt) {
	if id, ok := e.(*ast.Ident); ok && id.Name != "_" {
		return id, nil
	}
	t := r.fresh(prefix)
	return t, define(t, e)
}

func (r *rewriter) rewriteList(list []ast.Stmt) []ast.Stmt {
	var out []ast.Stmt
	for _, s := range list {
		out = append(out, r.rewriteStmt(s)...)
	}
	return out
}

func (r *rewriter) rewriteStmt(s ast.Stmt) []ast.Stmt {
	switch st := s.(type) {
	case *ast.LabeledStmt:
		inner := r.rewriteStmt(st.Stmt)
		if len(inner) == 1 {
			st.Stmt = inner[0]
			return []ast.Stmt{st}
		}
		// keep the label on the last (the original) statement: pre-statements run before it.
		// For loops labelled for break/continue this is exactly what is wanted.
		st.Stmt = inner[len(inner)-1]
		return append(inner[:len(inner)-1:len(inner)-1], st)

	case *ast.SendStmt:
		site := r.site(st)
		ch, pre := r.hoist(st.Chan, "c")
		st.Chan = ch
		r.handled[st] = true
		r.count("R3-send")
		var out []ast.Stmt
		if pre != nil {
			out = append(out, pre)
		}
		out = append(out, &ast.ExprStmt{X: r.shim("Send", site, ch)}, st)
		return out

	case *ast.ExprStmt:
		if u, ok := isRecvExpr(st.X); ok {
			ch, pre := r.hoist(u.X, "c")
			u.X = ch
			r.handled[u] = true
			r.count("R3-recv")
			var out []ast.Stmt
			if pre != nil {
				out = append(out, pre)
			}
			return append(out, &ast.ExprStmt{X: r.shim("Recv", r.site(st), ch)}, st)
		}
		if call, ok := st.X.(*ast.CallExpr); ok && r.isBuiltinClose(call) {
			ch, pre := r.hoist(call.Args[0], "c")
			call.Args[0] = ch
			r.handled[call] = true
			r.count("R3-close")
			var out []ast.Stmt
			if pre != nil {
				out = append(out, pre)
			}
			return append(out, &ast.ExprStmt{X: r.shim("Close", r.site(st), ch)}, st)
		}

	case *ast.AssignStmt:
		if len(st.Rhs) == 1 {
			if u, ok := isRecvExpr(st.Rhs[0]); ok {
				ch, pre := r.hoist(u.X, "c")
				u.X = ch
				r.handled[u] = true
				r.count("R3-recv")
				var out []ast.Stmt
				if pre != nil {
					out = append(out, pre)
				}
				return append(out, &ast.ExprStmt{X: r.shim("Recv", r.site(st), ch)}, st)
			}
		}

	case *ast.DeferStmt:
		if r.isBuiltinClose(st.Call) {
			ch, pre := r.hoist(st.Call.Args[0], "c")
			r.handled[st.Call] = true
			r.count("R3-close")
			closeCall := &ast.CallExpr{Fun: ast.NewIdent("close"), Args: []ast.Expr{ch}}
			r.handled[closeCall] = true
			body := &ast.BlockStmt{List: []ast.Stmt{
				&ast.ExprStmt{X: r.shim("Close", r.site(st), ch)},
				&ast.ExprStmt{X: closeCall},
			}}
			st.Call = &ast.CallExpr{Fun: &ast.FuncLit{Type: &ast.FuncType{Params: &ast.FieldList{}}, Body: body}}
			if pre != nil {
				return []ast.Stmt{pre, st}
			}
			return []ast.Stmt{st}
		}

	case *ast.SelectStmt:
		return r.rewriteSelect(st)

	case *ast.GoStmt:
		return r.rewriteGo(st)

	case *ast.RangeStmt:
		return r.rewriteRange(st)
	}
	return []ast.Stmt{s}
}

func (r *rewriter) isBuiltinClose(call *ast.CallExpr) bool {
	id, ok := call.Fun.(*ast.Ident)
	if !ok || id.Name != "close" || len(call.Args) != 1 {
		return false
	}
	_, isBuiltin := r.info.Uses[id].(*types.Builtin)
	return isBuiltin
}

func (r *rewriter) rewriteSelect(st *ast.SelectStmt) []ast.Stmt {
	var pre []ast.Stmt
	var dirs []ast.Expr
	var chans []ast.Expr
	hasDefault := false
	k := r.fresh("k")
	idx := 0
	for _, cl := range st.Body.List {
		cc := cl.(*ast.CommClause)
		if cc.Comm == nil {
			hasDefault = true
			continue
		}
		var chExpr *ast.Expr
		send := false
		switch c := cc.Comm.(type) {
		case *ast.SendStmt:
			chExpr = &c.Chan
			send = true
			r.handled[c] = true
		case *ast.ExprStmt:
			u, ok := isRecvExpr(c.X)
			if !ok {
				return []ast.Stmt{st}
			}
			chExpr = &u.X
			r.handled[u] = true
		case *ast.AssignStmt:
			u, ok := isRecvExpr(c.Rhs[0])
			if !ok {
				return []ast.Stmt{st}
			}
			chExpr = &u.X
			r.handled[u] = true
		default:
			return []ast.Stmt{st}
		}
		t := r.fresh("c")
		pre = append(pre, define(t, *chExpr))
		*chExpr = r.shim("Pick", k, &ast.BasicLit{Kind: token.INT, Value: strconv.Itoa(idx)}, t)
		if send {
			dirs = append(dirs, ast.NewIdent("true"))
		} else {
			dirs = append(dirs, ast.NewIdent("false"))
		}
		chans = append(chans, t)
		idx++
	}
	r.handled[st] = true
	r.count("R4-select")
	hd := ast.NewIdent("false")
	if hasDefault {
		hd = ast.NewIdent("true")
	}
	dirLit := &ast.CompositeLit{Type: &ast.ArrayType{Elt: ast.NewIdent("bool")}, Elts: dirs}
	args := append([]ast.Expr{r.site(st), hd, dirLit}, chans...)
	pre = append(pre, define(k, r.shim("Select", args...)))
	return append(pre, st)
}

func (r *rewriter) rewriteGo(st *ast.GoStmt) []ast.Stmt {
	r.handled[st] = true
	r.count("R8-go")
	tok := r.fresh("t")
	var pre []ast.Stmt
	pre = append(pre, define(tok, r.shim("Spawn")))
	enter := &ast.ExprStmt{X: r.shim("Enter", tok)}
	exit := &ast.DeferStmt{Call: r.shim("Exit")}

	if fl, ok := st.Call.Fun.(*ast.FuncLit); ok && len(st.Call.Args) == 0 {
		fl.Body.List = append([]ast.Stmt{enter, exit}, fl.Body.List...)
		return append(pre, st)
	}
	// go f(a, b): evaluate f and the arguments in the parent, as the go statement does
	call := st.Call
	fn, fpre := r.hoistFun(call.Fun)
	if fpre != nil {
		pre = append(pre, fpre)
	}
	newArgs := make([]ast.Expr, len(call.Args))
	for i, a := range call.Args {
		if isConstLike(a) {
			newArgs[i] = a
			continue
		}
		t := r.fresh("a")
		pre = append(pre, define(t, a))
		newArgs[i] = t
	}
	inner := &ast.CallExpr{Fun: fn, Args: newArgs, Ellipsis: call.Ellipsis}
	body := &ast.BlockStmt{List: []ast.Stmt{enter, exit, &ast.ExprStmt{X: inner}}}
	st.Call = &ast.CallExpr{Fun: &ast.FuncLit{Type: &ast.FuncType{Params: &ast.FieldList{}}, Body: body}}
	return append(pre, st)
}

func isConstLike(e ast.Expr) bool {
	switch x := e.(type) {
	case *ast.BasicLit:
		return true
	case *ast.Ident:
		return x.Name == "nil" || x.Name == "true" || x.Name == "false"
	}
	return false
}

// hoistFun evaluates the function value of a go statement in the parent. A function
// literal, a package-level function or a plain identifier is used as is.
func (r *rewriter) hoistFun(f ast.Expr) (ast.Expr, ast.Stmt) {
	switch x := f.(type) {
	case *ast.Ident:
		return x, nil
	case *ast.FuncLit:
		return x, nil
	case *ast.SelectorExpr:
		if id, ok := x.X.(*ast.Ident); ok {
			if _, isPkg := r.info.Uses[id].(*types.PkgName); isPkg {
				return x, nil
			}
		}
	}
	t := r.fresh("f")
	return t, define(t, f)
}

func (r *rewriter) rewriteRange(st *ast.RangeStmt) []ast.Stmt {
	t := r.info.TypeOf(st.X)
	if t == nil {
		return []ast.Stmt{st}
	}
	if _, isMap := t.Underlying().(*types.Map); !isMap {
		return []ast.Stmt{st}
	}
	if st.Tok != token.DEFINE {
		if st.Key == nil { // for range m {}
			r.handled[st] = true
			return []ast.Stmt{st}
		}
		return []ast.Stmt{st}
	}
	r.handled[st] = true
	r.count("R6-range-map")
	m := r.fresh("m")
	pre := []ast.Stmt{define(m, st.X)}
	key := st.Key
	if id, ok := key.(*ast.Ident); ok && id.Name == "_" {
		key = r.fresh("k")
	}
	var head []ast.Stmt
	if st.Value != nil {
		if id, ok := st.Value.(*ast.Ident); !ok || id.Name != "_" {
			okv := r.fresh("ok")
			head = append(head,
				&ast.AssignStmt{Lhs: []ast.Expr{st.Value, okv}, Tok: token.DEFINE,
					Rhs: []ast.Expr{&ast.IndexExpr{X: m, Index: key}}},
				&ast.IfStmt{Cond: &ast.UnaryExpr{Op: token.NOT, X: okv},
					Body: &ast.BlockStmt{List: []ast.Stmt{&ast.BranchStmt{Tok: token.CONTINUE}}}},
			)
		}
	}
	if st.Value == nil || len(head) == 0 {
		okv := r.fresh("ok")
		head = append(head,
			&ast.AssignStmt{Lhs: []ast.Expr{ast.NewIdent("_"), okv}, Tok: token.DEFINE,
				Rhs: []ast.Expr{&ast.IndexExpr{X: m, Index: key}}},
			&ast.IfStmt{Cond: &ast.UnaryExpr{Op: token.NOT, X: okv},
				Body: &ast.BlockStmt{List: []ast.Stmt{&ast.BranchStmt{Tok: token.CONTINUE}}}},
		)
	}
	st.Key = ast.NewIdent("_")
	st.Value = key
	st.X = r.shim("Keys", m)
	st.Body.List = append(head, st.Body.List...)
	return append(pre, st)
}
