#!/bin/bash
# build.sh <workdir>: instrument /repo's working tree and build the explorer test binary.
set -e
export GOFLAGS=-mod=mod GOPROXY=off GOSUMDB=off GOTOOLCHAIN=local GOCACHE=/verif/.gocache
W=$(realpath -m ${1:-/verif/.work/cur})
mkdir -p "$W"
/verif/bin/vinstr -out "$W/ov" >/dev/null
cd /verif/harness
go1.26.8 test -c -tags verif -vet=off -overlay "$W/ov/overlay.json" -o "$W/explore.test" ./scen
