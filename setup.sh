#!/bin/bash
# Builds the framework from files on disk only (offline) and warms the build cache.
set -e
cd "$(dirname "$0")"
export GOFLAGS=-mod=mod GOPROXY=off GOSUMDB=off GOTOOLCHAIN=local GOCACHE=/verif/.gocache GOLOG_LOG_LEVEL=fatal
mkdir -p bin .work evidence replays
(cd cmd/vinstr && go build -o ../../bin/vinstr .)
cp /repo/go.sum harness/go.sum 2>/dev/null || true
python3 - <<'PY'
import sys, os
sys.path.insert(0, os.getcwd())
import importlib.machinery, importlib.util
loader = importlib.machinery.SourceFileLoader("vcheck", os.path.join(os.getcwd(), "vcheck"))
spec = importlib.util.spec_from_loader("vcheck", loader)
m = importlib.util.module_from_spec(spec); loader.exec_module(m)
m.build("explore")
for k, v in m.CHECKS.items():
    if v["kind"] == "seqx":
        m.build("seqx", v["pkg"])
print("setup ok")
PY
